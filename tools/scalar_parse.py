"""Mini expression parser for the conversion snippets emitted by the wit-bindgen backends
(Rust, C, C++, C#, Go, MoonBit, D) -- C14 / C04 translator, DESIGN.md section 3.1.

One tokenizer + one precedence-climbing parser parameterised by language.  The surface AST is
made of python tuples; `show(ast)` prints it back in source syntax.  The translator's round-trip
guard is  strip_ws(show(parse(s))) == strip_ws(s).

Surface AST
  ('var', path)                 identifier / path  (a::b, a.b are parsed as field/path pieces, see below)
  ('num', text)                 numeric literal, verbatim (0x100, 1, 0i32, 1u8)
  ('str', text)                 string literal, verbatim
  ('paren', e)
  ('ccast', type, e)            (T) e          C, C++, C#
  ('dcast', type, e)            cast(T) e      D
  ('as', e, type)               e as T         Rust
  ('un', op, e)                 prefix  * & - ! ~
  ('bin', op, a, b)
  ('tern', c, a, b)             c ? a : b
  ('call', f, [args])           f(args)        (f(args) with f a type name = function-style cast: decided by the lowering)
  ('field', e, name)            e.name  e.0
  ('path', e, name)             e::name
  ('generic', e, text)          e::<T>  (Rust turbofish)  |  e<T,U> (C++ template args / C# generics) -- text without the brackets
  ('turbo', e, text)            e::<T>
  ('bang', e, type)             e!T            D template instantiation
  ('index', e, i)
  ('new', type, [args])         new T(args)    C#
  ('unchecked', e)              unchecked(e)   C#
  ('match', e, [(pat, expr)])   match e { pat => expr, ... }     Rust
  ('if', c, a, b)               if c { a } else { b }            Rust, MoonBit
  ('block', kw, [stmts], e)     kw { stmt; ...; e }   kw in ('', 'unsafe');  stmts are ('let', lhs_text, expr) | ('expr', expr)
  ('complit', type, [args])     (T){ args }    C compound literal
  ('macro', name, text)         name!(text)    Rust macro call, argument kept verbatim
  ('goptr', type, e)            (*T)(e)        Go pointer conversion
"""
import re


class ParseError(Exception):
    pass


TOKEN_RE = re.compile(r"""
    (?P<ws>\s+)
  | (?P<str>"(?:\\.|[^"\\])*")
  | (?P<num>0[xX][0-9a-fA-F_]+(?:[uiUL][0-9a-zA-Z]*)?|\d[\d_]*(?:\.\d+)?(?:[uif]\d+|usize|isize|[uUlLfF]+)?)
  | (?P<id>[A-Za-z_@$][A-Za-z0-9_$]*)
  | (?P<op>::|->|=>|!=|==|<=|>=|>>|<<|&&|\|\||[-+*/%&|^~!<>=?:.,;(){}\[\]\#'])
""", re.X)


def tokenize(s):
    toks, i = [], 0
    while i < len(s):
        m = TOKEN_RE.match(s, i)
        if not m:
            raise ParseError(f"cannot tokenize at {s[i:i+20]!r}")
        i = m.end()
        k = m.lastgroup
        if k == "ws":
            continue
        toks.append((k, m.group(k)))
    return toks


def strip_ws(s):
    return re.sub(r"\s+", "", s)


# type names that may start a C-style cast / function-style cast, per language
C_TYPES = {"int8_t", "uint8_t", "int16_t", "uint16_t", "int32_t", "uint32_t", "int64_t", "uint64_t",
           "float", "double", "bool", "size_t", "uintptr_t", "intptr_t", "char", "void", "union", "struct", "const",
           "unsigned", "signed", "int", "long", "short"}
CS_TYPES = {"sbyte", "byte", "short", "ushort", "int", "uint", "long", "ulong", "float", "double", "bool",
            "nint", "nuint", "char", "void"}
D_TYPES = {"byte", "ubyte", "short", "ushort", "int", "uint", "long", "ulong", "float", "double", "bool",
           "dchar", "char", "wchar", "size_t", "void", "ptrdiff_t"}
GO_TYPES = {"int8", "uint8", "int16", "uint16", "int32", "uint32", "int64", "uint64", "float32", "float64",
            "bool", "rune", "uintptr", "byte", "int", "uint"}
TYPE_NAMES = {"c": C_TYPES, "cpp": C_TYPES, "csharp": CS_TYPES, "d": D_TYPES, "go": GO_TYPES,
              "rust": set(), "moonbit": set()}

BINPREC = [
    ("||",), ("&&",), ("|",), ("^",), ("&",), ("==", "!="), ("<", ">", "<=", ">="), ("<<", ">>"),
    ("+", "-"), ("*", "/", "%"),
]


class Parser:
    def __init__(self, lang, text):
        self.lang = lang
        self.toks = tokenize(text)
        self.i = 0
        self.text = text

    # -- helpers
    def peek(self, k=0):
        j = self.i + k
        return self.toks[j] if j < len(self.toks) else ("eof", "")

    def at(self, v, k=0):
        return self.peek(k)[1] == v and self.peek(k)[0] != "str"

    def eat(self, v=None):
        t = self.peek()
        if t[0] == "eof":
            raise ParseError(f"unexpected end, wanted {v!r}")
        if v is not None and t[1] != v:
            raise ParseError(f"expected {v!r}, got {t[1]!r} at token {self.i}")
        self.i += 1
        return t[1]

    def done(self):
        return self.i >= len(self.toks)

    # -- types (kept as text)
    def type_text_until(self, closer):
        """consume tokens of a type up to (not including) the matching `closer` at depth 0"""
        depth, out = 0, []
        while True:
            k, v = self.peek()
            if k == "eof":
                raise ParseError("unterminated type")
            if depth == 0 and v == closer:
                break
            if v in "([<":
                depth += 1
            elif v in ")]>":
                depth -= 1
            elif v == ">>":
                depth -= 2
            out.append(v)
            self.i += 1
        return join_type(out)

    def looks_like_type_paren(self):
        """at '(' : is the parenthesised content a type (C-style cast)?  Returns index after ')' or None."""
        names = TYPE_NAMES[self.lang]
        j = self.i + 1
        k, v = self.toks[j] if j < len(self.toks) else ("eof", "")
        if self.lang == "csharp" and v == "global":
            return None  # global::X.Y(...) is a call, never a cast target in the emitted code
        if k != "id" or v not in names:
            return None
        depth = 0
        while j < len(self.toks):
            k, v = self.toks[j]
            if v == "(":
                depth += 1
            elif v == ")":
                if depth == 0:
                    return j + 1
                depth -= 1
            elif k == "id" or v in ("*", "::", "<", ">", ",", ".", "const"):
                pass
            else:
                return None
            j += 1
        return None

    # -- expressions
    def parse_all(self):
        e = self.expr()
        if not self.done():
            raise ParseError(f"trailing tokens from {self.peek()[1]!r} (token {self.i}) in {self.text!r}")
        return e

    def expr(self):
        return self.ternary()

    def ternary(self):
        c = self.binary(0)
        if self.lang in ("c", "cpp", "csharp", "d") and self.at("?"):
            self.eat("?")
            a = self.expr()
            self.eat(":")
            b = self.expr()
            return ("tern", c, a, b)
        return c

    def binary(self, level):
        if level >= len(BINPREC):
            return self.unary()
        lhs = self.binary(level + 1)
        while self.peek()[0] == "op" and self.peek()[1] in BINPREC[level]:
            op = self.peek()[1]
            # `<` / `>` are never comparison operators in the emitted snippets of C++/C#/Rust generics; they are
            # consumed by postfix() before we get here, so what remains is a real operator.
            self.eat()
            rhs = self.binary(level + 1)
            lhs = ("bin", op, lhs, rhs)
        return lhs

    def unary(self):
        k, v = self.peek()
        if k == "op" and v in ("*", "&", "-", "!", "~"):
            self.eat()
            if v == "&" and self.lang == "rust" and self.at("raw"):
                raise ParseError("&raw not supported")
            return self.as_suffix(("un", v, self.unary()))
        if self.lang == "d" and v == "cast" and self.at("(", 1):
            self.eat(); self.eat("(")
            t = self.type_text_until(")")
            self.eat(")")
            return ("dcast", t, self.unary())
        if v == "(" and self.lang in ("c", "cpp", "csharp"):
            end = self.looks_like_type_paren()
            if end is not None:
                nk, nv = self.toks[end] if end < len(self.toks) else ("eof", "")
                starts_operand = nk in ("id", "num", "str") or nv in ("(", "*", "&", "-", "!", "~")
                if nv == "{" and self.lang in ("c", "cpp"):
                    self.eat("(")
                    t = self.type_text_until(")")
                    self.eat(")"); self.eat("{")
                    args = self.args_until("}")
                    self.eat("}")
                    return self.postfix(("complit", t, args))
                if starts_operand:
                    self.eat("(")
                    t = self.type_text_until(")")
                    self.eat(")")
                    return ("ccast", t, self.unary())
        return self.as_suffix(self.postfix(self.primary()))

    def as_suffix(self, e):
        while self.lang == "rust" and self.at("as"):
            self.eat("as")
            t = self.rust_type()
            e = ("as", e, t)
        return e

    def rust_type(self):
        out = []
        while True:
            k, v = self.peek()
            if v in ("*",) and not out:
                out.append(self.eat())
                if self.peek()[1] in ("mut", "const"):
                    out.append(self.eat())
                continue
            if k == "id":
                out.append(self.eat())
                if self.at("::"):
                    out.append(self.eat())
                    continue
                if self.at("<"):
                    out.append(self.eat("<"))
                    out.append(self.type_text_until(">"))
                    out.append(self.eat(">"))
                break
            raise ParseError(f"bad rust type at {v!r}")
        return join_type(out)

    def args_until(self, closer):
        args = []
        while not self.at(closer):
            args.append(self.expr())
            if self.at(","):
                self.eat(",")
            else:
                break
        return args

    def primary(self):
        k, v = self.peek()
        lang = self.lang
        if k == "num":
            self.eat()
            return ("num", v)
        if k == "str":
            self.eat()
            return ("str", v)
        if v == "(":
            if lang == "go" and self.at("*", 1):
                # (*T)(e)
                self.eat("("); self.eat("*")
                t = self.type_text_until(")")
                self.eat(")"); self.eat("(")
                e = self.expr()
                self.eat(")")
                return ("goptr", t, e)
            self.eat("(")
            e = self.expr()
            if self.at(","):
                # tuple: only as the whole of a match arm / never inside conversions -> reject
                raise ParseError("tuple expression")
            self.eat(")")
            return ("paren", e)
        if k == "id":
            if lang == "csharp" and v == "unchecked" and self.at("(", 1):
                self.eat(); self.eat("(")
                e = self.expr()
                self.eat(")")
                return ("unchecked", e)
            if lang == "csharp" and v == "new":
                self.eat()
                t = self.type_text_until("(")
                self.eat("(")
                args = self.args_until(")")
                self.eat(")")
                return ("new", t, args)
            if lang == "rust" and v == "match":
                self.eat()
                scrut = self.no_struct_expr()
                self.eat("{")
                arms = []
                while not self.at("}"):
                    pat = []
                    while not self.at("=>"):
                        pat.append(self.eat())
                    self.eat("=>")
                    body = self.expr()
                    arms.append((" ".join(pat), body))
                    if self.at(","):
                        self.eat(",")
                self.eat("}")
                return ("match", scrut, arms)
            if lang in ("rust", "moonbit") and v == "if":
                self.eat()
                c = self.no_struct_expr()
                self.eat("{"); a = self.block_body(); self.eat("}")
                self.eat("else")
                self.eat("{"); b = self.block_body(); self.eat("}")
                return ("if", c, a, b)
            if lang == "rust" and v == "unsafe" and self.at("{", 1):
                self.eat(); self.eat("{")
                body = self.block_body()
                self.eat("}")
                return ("block", "unsafe", [], body) if body[0] != "block" else ("block", "unsafe", body[2], body[3])
            self.eat()
            return ("var", v)
        if v == "{" and lang == "rust":
            self.eat("{")
            body = self.block_body()
            self.eat("}")
            return body if body[0] == "block" else ("block", "", [], body)
        if v == "::" and lang == "rust":
            # leading `::core::...`
            self.eat()
            k2, v2 = self.peek()
            if k2 != "id":
                raise ParseError("bad path")
            self.eat()
            return ("var", "::" + v2)
        raise ParseError(f"unexpected token {v!r} (token {self.i}) in {self.text!r}")

    def no_struct_expr(self):
        # expression that stops before `{` (scrutinee / condition)
        return self.ternary()

    def block_body(self):
        """`stmt; stmt; expr` inside braces (Rust) -> expr or ('block','',stmts,expr)"""
        stmts = []
        while True:
            if self.at("let"):
                self.eat("let")
                lhs = []
                while not self.at("="):
                    lhs.append(self.eat())
                self.eat("=")
                e = self.expr()
                self.eat(";")
                stmts.append(("let", " ".join(lhs), e))
                continue
            e = self.expr()
            if self.at(";"):
                self.eat(";")
                if self.at("}"):
                    raise ParseError("block ends with statement")
                stmts.append(("expr", e))
                continue
            break
        return ("block", "", stmts, e) if stmts else e

    def postfix(self, e):
        lang = self.lang
        while True:
            k, v = self.peek()
            if v == "(":
                self.eat("(")
                args = self.args_until(")")
                self.eat(")")
                e = ("call", e, args)
            elif v == "." and self.peek(1)[0] in ("id", "num"):
                self.eat(".")
                e = ("field", e, self.eat())
            elif v == "::" and self.at("<", 1) and lang == "rust":
                self.eat("::"); self.eat("<")
                t = self.type_text_until(">")
                self.eat(">")
                e = ("turbo", e, t)
            elif v == "::" and self.peek(1)[0] == "id":
                self.eat("::")
                e = ("path", e, self.eat())
            elif v == "<" and self.generic_ahead():
                self.eat("<")
                t = self.type_text_until(">")
                self.eat(">")
                e = ("generic", e, t)
            elif v == "!" and lang == "rust" and e[0] in ("var", "path") and self.at("(", 1):
                self.eat("!"); self.eat("(")
                depth, out = 0, []
                while True:
                    kk, vv = self.peek()
                    if kk == "eof":
                        raise ParseError("unterminated macro")
                    if vv == ")" and depth == 0:
                        break
                    if vv in "([{":
                        depth += 1
                    elif vv in ")]}":
                        depth -= 1
                    out.append(vv); self.i += 1
                self.eat(")")
                e = ("macro", e, " ".join(out))
            elif v == "!" and lang == "d" and self.peek(1)[0] == "id" and not self.at("=", 1):
                self.eat("!")
                e = ("bang", e, self.eat())
            elif v == "[":
                self.eat("[")
                i = self.expr()
                self.eat("]")
                e = ("index", e, i)
            else:
                return e

    def generic_ahead(self):
        """C++ `std::bit_cast<float, int32_t>(x)`, `std::get<0>(r)`, C# `Span<byte>`: `<` starts template args
        iff a matching `>` follows containing only type-ish tokens and is followed by `(`, `{`, `::` or end."""
        if self.lang not in ("cpp", "csharp", "go"):
            return False
        j, depth = self.i, 0
        while j < len(self.toks):
            k, v = self.toks[j]
            if v == "<":
                depth += 1
            elif v == ">":
                depth -= 1
                if depth == 0:
                    nxt = self.toks[j + 1][1] if j + 1 < len(self.toks) else ""
                    return nxt in ("(", "{", "::", "", ")", ",")
            elif k in ("id", "num") or v in (",", "::", "*", "."):
                pass
            else:
                return False
            j += 1
        return False


def join_type(parts):
    out = ""
    for p in parts:
        if out and (out[-1].isalnum() or out[-1] == "_") and (p[0].isalnum() or p[0] == "_"):
            out += " "
        out += p
    return out


def parse(lang, text):
    return Parser(lang, text).parse_all()


def show(e):
    k = e[0]
    if k in ("var", "num", "str"):
        return e[1]
    if k == "paren":
        return "(" + show(e[1]) + ")"
    if k == "ccast":
        return "(" + e[1] + ")" + show(e[2])
    if k == "dcast":
        return "cast(" + e[1] + ")" + show(e[2])
    if k == "as":
        return show(e[1]) + " as " + e[2]
    if k == "un":
        return e[1] + show(e[2])
    if k == "bin":
        return show(e[2]) + " " + e[1] + " " + show(e[3])
    if k == "tern":
        return show(e[1]) + " ? " + show(e[2]) + " : " + show(e[3])
    if k == "call":
        return show(e[1]) + "(" + ", ".join(show(a) for a in e[2]) + ")"
    if k == "field":
        return show(e[1]) + "." + e[2]
    if k == "path":
        return show(e[1]) + "::" + e[2]
    if k == "turbo":
        return show(e[1]) + "::<" + e[2] + ">"
    if k == "generic":
        return show(e[1]) + "<" + e[2] + ">"
    if k == "bang":
        return show(e[1]) + "!" + e[2]
    if k == "index":
        return show(e[1]) + "[" + show(e[2]) + "]"
    if k == "new":
        return "new " + e[1] + "(" + ", ".join(show(a) for a in e[2]) + ")"
    if k == "unchecked":
        return "unchecked(" + show(e[1]) + ")"
    if k == "match":
        return "match " + show(e[1]) + " { " + " ".join(p + " => " + show(b) + "," for p, b in e[2]) + " }"
    if k == "if":
        return "if " + show(e[1]) + " { " + show(e[2]) + " } else { " + show(e[3]) + " }"
    if k == "block":
        body = ""
        for s in e[2]:
            body += ("let " + s[1] + " = " + show(s[2]) + "; ") if s[0] == "let" else (show(s[1]) + "; ")
        return (e[1] + " " if e[1] else "") + "{ " + body + show(e[3]) + " }"
    if k == "complit":
        return "(" + e[1] + "){ " + ", ".join(show(a) for a in e[2]) + " }"
    if k == "macro":
        return show(e[1]) + "!(" + e[2] + ")"
    if k == "goptr":
        return "(*" + e[1] + ")(" + show(e[2]) + ")"
    raise ValueError(k)


def roundtrips(lang, text):
    """-> (ast | None, error | None).  Rust match arms print a trailing comma that the source may omit."""
    try:
        ast = parse(lang, text)
    except ParseError as ex:
        return None, f"parse error: {ex}"
    a, b = strip_ws(show(ast)), strip_ws(text)
    if a != b and a.replace(",}", "}") != b.replace(",}", "}"):
        return None, f"round-trip mismatch: printed {show(ast)!r}"
    return ast, None


def balanced(text):
    """bracket balance check used for the `emitted expression not well-formed` finding class (DESIGN F11)"""
    st, pairs = [], {")": "(", "]": "[", "}": "{"}
    i = 0
    while i < len(text):
        ch = text[i]
        if ch == '"':
            j = i + 1
            while j < len(text) and text[j] != '"':
                j += 2 if text[j] == "\\" else 1
            i = j + 1
            continue
        if ch in "([{":
            st.append(ch)
        elif ch in ")]}":
            if not st or st[-1] != pairs[ch]:
                return False
            st.pop()
        i += 1
    return not st


if __name__ == "__main__":
    import sys
    tests = [
        ("c", "(int8_t) (ret)"), ("c", "(int8_t) (int8_t) ((int32_t) *((int8_t*) (ptr0 + 0)))"),
        ("c", "((union float_int32){ *payload }).b"), ("c", "((union int32_float){ (int32_t) arg0 }).b"),
        ("cpp", "(int8_t((int32_t) (*((int8_t*) (ptr1 + 0)))))"), ("cpp", "std::bit_cast<int32_t, float>((float(payload0)))"),
        ("cpp", "(int32_t(std::get<0>(result0)))"),
        ("csharp", "(((sbyte)(sbyte)new global::System.Span<byte>((byte*)p0 + 0, 1)[0]))"),
        ("csharp", "unchecked((uint)(new global::System.Span<int>((void*)((byte*)ptr0 + 0), 1)[0]))"),
        ("csharp", "(ret ? 1 : 0)"), ("csharp", "global::System.BitConverter.Int32BitsToSingle((int)p1)"),
        ("go", "int8(int8(*(*uint32)(unsafe.Add(unsafe.Pointer(returnArea), 0))))"),
        ("go", "int64(math.Float32bits(payload))"),
        ("rust", "(_rt::as_i32(&a0)) as u8"), ("rust", "i32::from(*ptr1.add(0).cast::<i8>())"),
        ("rust", "match &zqx { true => 1, false => 0 }"), ("rust", "i64::from((_rt::as_f32(e)).to_bits())"),
        ("rust", "if cfg!(debug_assertions) { match val { 0 => false, 1 => true, _ => panic!(\"invalid bool discriminant\"), } } else { val != 0 }"),
        ("rust", "if cfg!(debug_assertions) { core::char::from_u32(val).unwrap() } else { unsafe { core::char::from_u32_unchecked(val) } }"),
        ("rust", "{ let mut t = ::core::mem::MaybeUninit::<u64>::uninit(); t.as_mut_ptr().cast::<*mut u8>().write(ptr); t }"),
        ("moonbit", "(p0.land(0xFFFF).reinterpret_as_uint())"), ("moonbit", "(if zqx { 1 } else { 0 })"),
        ("moonbit", "(mbt_ffi_load8((p0) + 0) - 0x100)"), ("moonbit", "Int::unsafe_to_char(mbt_ffi_load32((p0) + 0))"),
        ("d", "cast(byte)(cast(uint)(*(cast(byte*)(arg0 + 0))))"), ("d", "(cast(uint)arg1).reinterpretCast!float"),
        ("d", "(_ret) != 0"), ("d", "*cast(ubyte*)(_retArea.ptr + 0)"),
    ]
    bad = 0
    for lang, t in tests:
        ast, err = roundtrips(lang, t)
        if err:
            bad += 1
            print("FAIL", lang, t, err)
        elif "-v" in sys.argv:
            print("ok", lang, t, ast)
    print("self-test:", len(tests) - bad, "/", len(tests))
