"""Shared machinery for the /verif checks (see DESIGN.md sections 2-4).

A check is a python module checks/<ID>.py with `def run(c: Check)`.  It calls, in order,
  c.lake_build([...])        proof obligations (re-checked against current generated files)
  c.audit("Witverif.Props.<ID>")   axiom audit + forbidden-construct scan
  c.cargo_build("pkg")       harness rebuilt from /repo's working tree (hooks on)
  ... correspondence: run_lines(impl), run_lines(model), c.compare(...)
  c.spec_violation(...)      for every concrete input on which the *property* fails
and the runner's finish() decides VIOLATION / KNOWN-FINDING / exit code and writes evidence.
"""
import json, os, re, subprocess, sys, time, hashlib, random, shutil

VERIF = os.path.dirname(os.path.dirname(os.path.abspath(__file__)))
REPO = os.environ.get("VERIF_REPO", "/repo")
LEAN = os.path.join(VERIF, "lean")
HARNESS = os.path.join(VERIF, "harness")
BUILD = os.path.join(VERIF, ".build")
TARGET = os.path.join(BUILD, "target")
GUARD = "bytecodealliance_wit_bindgen_verif"
ALLOWED_AXIOMS = {"propext", "Classical.choice", "Quot.sound"}
FORBIDDEN_EXTRA_NOTE = "partial def / opaque / @[extern] / @[csimp] are forbidden in model and proof sources"
FORBIDDEN = [r"\bsorry\b", r"\badmit\b", r"^\s*axiom\s", r"\bnative_decide\b",
             r"\bimplemented_by\b", r"\bunsafe\s", r"maxHeartbeats\s+0\b",
             r"\bpartial\s+def\b", r"^\s*opaque\s", r"@\[\s*extern\b", r"@\[\s*csimp\b"]
TRUSTED_BASE = [
    "Lean 4.33.0 kernel (lake build; thorough tier re-checks with leanchecker)",
    "axioms allowed: propext, Classical.choice, Quot.sound (audited with #print axioms on every property theorem)",
    "the hand-written Lean model of the anchored code, tied to /repo by the correspondence run reported under coverage.correspondence",
    "the correspondence harness (/verif/harness, /verif/tools) and its canonicalisation",
]


def _limit_as(gb):
    def f():
        import resource
        lim = int(gb * (1 << 30))
        resource.setrlimit(resource.RLIMIT_AS, (lim, lim))
    return f


def sh(cmd, cwd=None, timeout=None, env=None, input=None, mem_gb=None):
    """mem_gb: address-space limit for the child (a model evaluator fed with the output of a broken
    implementation must not be able to exhaust the machine's memory)."""
    e = dict(os.environ)
    e.update({"CARGO_NET_OFFLINE": "true", "GOPROXY": "off", "PIP_NO_INDEX": "1"})
    if env:
        e.update(env)
    p = subprocess.run(cmd, cwd=cwd, timeout=timeout, env=e, input=input,
                       stdout=subprocess.PIPE, stderr=subprocess.STDOUT, text=True,
                       preexec_fn=_limit_as(mem_gb) if mem_gb else None)
    return p.returncode, p.stdout


def strip_lean_comments(src):
    out, i, depth, n = [], 0, 0, len(src)
    while i < n:
        if src.startswith("/-", i):
            depth += 1; i += 2; continue
        if depth and src.startswith("-/", i):
            depth -= 1; i += 2; continue
        if depth:
            if src[i] == "\n": out.append("\n")
            i += 1; continue
        if src.startswith("--", i):
            while i < n and src[i] != "\n": i += 1
            continue
        if src[i] == '"':
            j = i + 1
            while j < n and src[j] != '"':
                j += 2 if src[j] == "\\" else 1
            out.append('""'); i = j + 1; continue
        out.append(src[i]); i += 1
    return "".join(out)


def run_lines(cmd, lines, timeout=120, cwd=None, env=None, _budget=None, mem_gb=None):
    """Pipe request lines to a line server; return one answer per request.
    On a hang or crash the offending request is isolated (bisection, leftmost first) and answered
    `timeout` / `crash`.  Isolation is bounded (ISOLATION_LAUNCHES process launches per call): when an
    implementation crashes on thousands of requests the leftmost ones are isolated exactly and the
    remaining failing chunks are answered `crash-unisolated` line by line, so that a badly broken
    implementation cannot make a check run for hours."""
    if not lines:
        return []
    if _budget is None:
        _budget = [ISOLATION_LAUNCHES]
    data = "\n".join(lines) + "\n"
    try:
        rc, out = sh(cmd, input=data, timeout=timeout, cwd=cwd, env=env, mem_gb=mem_gb)
        ans = out.split("\n")
        if ans and ans[-1] == "": ans.pop()
        if rc == 0 and len(ans) == len(lines):
            return ans
        bad = "crash"
    except subprocess.TimeoutExpired:
        bad = "timeout"
    if len(lines) == 1:
        # A hang or crash of one isolated request is never taken at face value: on a loaded machine a healthy
        # request can exceed a (halved) time limit.  Re-run it alone with a generous limit; the first normal
        # answer wins, only a failure that reproduces is reported.  The number of confirmations per call is
        # bounded (a really hanging implementation must not make the check run for hours): after
        # CONFIRM_TIMEOUTS reproduced hangs / CONFIRM_CRASHES reproduced crashes further ones are believed.
        if len(_budget) < 3:
            _budget += [CONFIRM_TIMEOUTS, CONFIRM_CRASHES][len(_budget) - 1:]
        slot = 1 if bad == "timeout" else 2
        if _budget[slot] > 0:
            for _ in range(2):
                try:
                    rc, out = sh(cmd, input=data, timeout=max(150, timeout), cwd=cwd, env=env, mem_gb=mem_gb)
                    ans = out.split("\n")
                    if ans and ans[-1] == "": ans.pop()
                    if rc == 0 and len(ans) == 1:
                        return ans
                    bad = "crash"
                except subprocess.TimeoutExpired:
                    bad = "timeout"
            _budget[slot] -= 1
        return [bad]
    if _budget[0] <= 0:
        return [bad + "-unisolated"] * len(lines)
    _budget[0] -= 2
    mid = len(lines) // 2
    t = max(30, timeout // 2)
    return run_lines(cmd, lines[:mid], t, cwd, env, _budget, mem_gb) + run_lines(cmd, lines[mid:], t, cwd, env, _budget, mem_gb)


ISOLATION_LAUNCHES = 600
CONFIRM_TIMEOUTS = 6
CONFIRM_CRASHES = 40


import contextlib, fcntl


@contextlib.contextmanager
def lake_lock():
    """Exclusive advisory lock around `lake build`: two checks started at the same time (quick and
    thorough, or two properties) would otherwise race on lean/.lake/build and report spurious
    missing-.olean errors.  Builds are no-ops after set-up, so the serialisation costs nothing."""
    os.makedirs(BUILD, exist_ok=True)
    with open(os.path.join(BUILD, "lake.lock"), "w") as f:
        fcntl.flock(f, fcntl.LOCK_EX)
        try:
            yield
        finally:
            fcntl.flock(f, fcntl.LOCK_UN)


def run_lock():
    """Exclusive lock held for a whole check run (released when the returned file is closed or the
    process exits).  Waits at most VERIF_LOCK_WAIT seconds (default 6 h) for another run, then goes on
    without the lock rather than never answering."""
    os.makedirs(BUILD, exist_ok=True)
    f = open(os.path.join(BUILD, "run.lock"), "w")
    deadline = time.time() + float(os.environ.get("VERIF_LOCK_WAIT", "21600"))
    while True:
        try:
            fcntl.flock(f, fcntl.LOCK_EX | fcntl.LOCK_NB)
            return f
        except OSError:
            if time.time() > deadline:
                print("NOTE: another check still holds .build/run.lock; continuing without it", file=sys.stderr)
                return f
            time.sleep(2)


class Check:
    def __init__(self, pid, tier, seed):
        self.pid, self.tier, self.seed = pid, tier, seed
        self.rng = random.Random(seed)
        self.t0 = time.time()
        self.level = "proof"
        self.broken = []          # broken obligations / correspondences: (name, detail)
        self.violations = []      # concrete failing inputs: dict(klass, what, witness)
        self.theorems = {}        # name -> axioms
        self.obligations = 0
        self.discharged = 0
        self.cov = {}             # extra coverage keys
        self.samples = []
        self.evaluations = 0
        self.nontrivial = set()
        self.rule = ""
        self.assumptions = []
        self.checker_cmds = []
        self.trusted = list(TRUSTED_BASE)
        self.notes = []
        self.corr = {}            # name -> dict(cases, mismatches)

    # ---------------------------------------------------------------- proofs
    def lake_build(self, targets, obligation=True):
        cmd = ["lake", "build"] + targets
        self.checker_cmds.append("cd lean && " + " ".join(cmd))
        with lake_lock():           # lake has no build lock of its own: serialise concurrent checks
            try:
                rc, out = sh(cmd, cwd=LEAN, timeout=6000)
            except subprocess.TimeoutExpired:
                rc, out = 124, "error: lake build timed out after 6000 s"
        if rc != 0:
            errs = [l for l in out.split("\n") if "error" in l][:20]
            self.broken.append(("lake build " + " ".join(targets), "\n".join(errs) or out[-2000:]))
            return False
        return True

    def props_file(self, module):
        return os.path.join(LEAN, *module.split(".")) + ".lean"

    def list_theorems(self, module):
        src = strip_lean_comments(open(self.props_file(module)).read())
        ns, names = [], []
        for line in src.split("\n"):
            m = re.match(r"\s*namespace\s+(\S+)", line)
            if m: ns.append(m.group(1)); continue
            m = re.match(r"\s*end\s+(\S+)", line)
            if m and ns and ns[-1].endswith(m.group(1).split(".")[-1]): ns.pop(); continue
            m = re.match(r"\s*(?:@\[[^\]]*\]\s*)?(?:protected\s+|private\s+)?theorem\s+(\S+)", line)
            if m: names.append(".".join(ns + [m.group(1)]))
        return names

    def audit(self, module, allow_bv_decide=False, extra_allowed=()):
        """#print axioms on every theorem of a Props module + forbidden-construct scan of all
        model/proof sources.  Each theorem is one obligation."""
        names = self.list_theorems(module)
        if not names:
            self.broken.append((f"audit {module}", "no theorems found"))
            return
        self.obligations += len(names)
        os.makedirs(os.path.join(BUILD, "audit"), exist_ok=True)
        tmp = os.path.join(BUILD, "audit", module + ".lean")
        with open(tmp, "w") as f:
            f.write(f"import {module}\n" + "".join(f"#print axioms {n}\n" for n in names))
        rc, out = sh(["lake", "env", "lean", tmp], cwd=LEAN, timeout=1200)
        self.checker_cmds.append(f"cd lean && lake env lean <#print axioms of {len(names)} theorems of {module}>")
        found = {}
        for m in re.finditer(r"'([^']+)' (?:depends on axioms: \[([^\]]*)\]|does not depend on any axioms)", out, re.S):
            axs = [a.strip() for a in (m.group(2) or "").replace("\n", " ").split(",") if a.strip()]
            found[m.group(1)] = axs
        for n in names:
            if n not in found:
                self.broken.append((f"theorem {n}", "not checked by Lean (missing from #print axioms output): " + out[-500:]))
                continue
            axs = found[n]
            self.theorems[n] = axs
            badax = [a for a in axs if a not in ALLOWED_AXIOMS and a not in extra_allowed
                     and not (allow_bv_decide and "._native.bv_decide.ax" in a)]
            if badax:
                self.broken.append((f"theorem {n}", f"depends on disallowed axioms {badax}"))
            else:
                self.discharged += 1
        # forbidden constructs in every source file the Props module transitively imports
        for p in self.transitive_sources(module):
            src = strip_lean_comments(open(p).read())
            for pat in FORBIDDEN:
                m = re.search(pat, src, re.M)
                if m:
                    self.broken.append((f"forbidden construct in {os.path.relpath(p, VERIF)}", m.group(0)))
            if re.search(r"\bbv_decide\b", src) and not allow_bv_decide:
                self.broken.append((f"bv_decide outside allow-list in {os.path.relpath(p, VERIF)}", "bv_decide"))

    def transitive_sources(self, module):
        seen, todo, files = set(), [module], []
        while todo:
            m = todo.pop()
            if m in seen: continue
            seen.add(m)
            p = os.path.join(LEAN, *m.split(".")) + ".lean"
            if not os.path.exists(p): continue      # core / Std / Mathlib module
            files.append(p)
            for line in open(p):
                mm = re.match(r"\s*(?:public\s+)?import\s+(?:all\s+)?(\S+)", line)
                if mm: todo.append(mm.group(1))
        return files

    def leanchecker(self, module):
        rc, out = sh(["lake", "env", "leanchecker", module], cwd=LEAN, timeout=3000)
        self.checker_cmds.append(f"cd lean && lake env leanchecker {module}")
        self.cov.setdefault("leanchecker", {})[module] = "ok" if rc == 0 else "FAILED"
        if rc != 0:
            self.broken.append((f"leanchecker {module}", out[-1000:]))

    def model_exe(self, name):
        """Build a model driver executable and return its path (None if the build is broken)."""
        if not self.lake_build([name]):
            return None
        return os.path.join(LEAN, ".lake", "build", "bin", name)

    # ---------------------------------------------------------------- harness
    def cargo_build(self, pkg, features=None, bin=None, release=False, extra_env=None):
        """Build a harness crate against /repo's working tree.  If VERIF_REPO names another directory (a
        *copy* of the repository with deliberate edits, used to test the checks themselves without
        touching the shared /repo) every path dependency into /repo/crates/* is overridden by the copy
        (cargo `paths` override) and a separate target directory is used."""
        cmd = ["cargo", "build", "-p", pkg]
        if features: cmd += ["--features", features]
        if release: cmd += ["--release"]
        target = TARGET
        env = dict(extra_env or {})
        if os.path.realpath(REPO) != "/repo":
            target = os.path.join(BUILD, "target-mut")
            crates = [os.path.join(REPO, "crates", d) for d in sorted(os.listdir(os.path.join(REPO, "crates")))
                      if os.path.exists(os.path.join(REPO, "crates", d, "Cargo.toml"))]
            macro = os.path.join(REPO, "crates", "guest-rust", "macro")
            if os.path.exists(os.path.join(macro, "Cargo.toml")): crates.append(macro)
            cmd += ["--target-dir", target, "--config", "paths=[%s]" % ",".join('"%s"' % c for c in crates)]
            env["VERIF_REPO"] = REPO
            self.notes.append(f"{pkg} built against the repo copy {REPO}")
        rc, out = sh(cmd, cwd=HARNESS, timeout=3000, env=env)
        if rc != 0:
            self.broken.append((f"harness build {pkg}", out[-3000:]))
            return None
        return os.path.join(target, "release" if release else "debug", bin or pkg)

    # ---------------------------------------------------------------- correspondence
    def compare(self, name, requests, impl, model, nontrivial=lambda r, o: True, canon=lambda x: x):
        """Exact comparison of implementation and model answers; records coverage."""
        st = self.corr.setdefault(name, {"cases": 0, "mismatches": 0, "first_mismatches": []})
        mism = []
        for r, a, b in zip(requests, impl, model):
            st["cases"] += 1
            self.evaluations += 1
            if nontrivial(r, a):
                self.nontrivial.add(hashlib.sha1((name + "\0" + r).encode()).hexdigest())
            if canon(a) != canon(b):
                st["mismatches"] += 1
                mism.append({"request": r, "impl": a, "model": b})
        if mism:
            st["first_mismatches"] = mism[:5]
            self.broken.append((f"corr:{name}", json.dumps(mism[:3])))
        return mism

    def spec_violation(self, klass, what, witness):
        """A concrete input on which the property (spec side) fails on the implementation."""
        self.violations.append({"class": klass, "what": what, "witness": witness})

    def sample(self, s):
        if len(self.samples) < 8:
            self.samples.append(s)

    # ---------------------------------------------------------------- finish
    def known_findings(self):
        p = os.path.join(VERIF, "known_findings.jsonl")
        res = []
        if os.path.exists(p):
            for line in open(p):
                line = line.strip()
                if not line or line.startswith("#") or line.startswith("fixed:"): continue
                try:
                    d = json.loads(line)
                except Exception:
                    continue
                if d.get("property") == self.pid: res.append(d)
        return res

    def finish(self):
        known = self.known_findings()
        known_classes = {k["class"]: k for k in known}
        new_v = [v for v in self.violations if v["class"] not in known_classes]
        seen_known = {}
        for v in self.violations:
            if v["class"] in known_classes:
                seen_known.setdefault(v["class"], v)
        rdir = os.path.join(os.environ.get("VERIF_REPLAY_DIR", os.path.join(VERIF, "replays" if REPO == "/repo" else ".build/replays-other-repo")), self.pid)
        lines, rc = [], 0
        for cls, v in seen_known.items():
            lines.append(f"KNOWN-FINDING: property={self.pid} {known_classes[cls].get('what', v['what'])}")
        for k in known:
            if k["class"] not in seen_known:
                lines.append(f"NOTE: known finding {k['class']} of {self.pid} was not reproduced in this run (stale entry or not exercised)")
        def write_replay(obj):
            os.makedirs(rdir, exist_ok=True)
            h = hashlib.sha1(json.dumps(obj, sort_keys=True).encode()).hexdigest()[:12]
            p = os.path.join(rdir, h + ".json")
            json.dump(obj, open(p, "w"), indent=1)
            return p
        reported = set()
        for v in new_v:
            if v["class"] in reported: continue
            reported.add(v["class"])
            p = write_replay({"property": self.pid, "seed": self.seed, "tier": self.tier,
                              "kind": "failing-input", **v,
                              "broken_obligations": [b[0] for b in self.broken],
                              "replay_cmd": f"./check {self.pid} --replay <this file>"})
            lines.append(f"VIOLATION property={self.pid} replay={p}")
            rc = 1
        if self.broken and not new_v:
            p = write_replay({"property": self.pid, "seed": self.seed, "tier": self.tier,
                              "kind": "broken-obligation",
                              "no_longer_checks": [{"obligation": n, "detail": d} for n, d in self.broken],
                              "searched": self.cov.get("search", "spec monitors over the seeded + corpus inputs of this run"),
                              "known_findings_seen": list(seen_known)})
            lines.append(f"VIOLATION property={self.pid} replay={p} no-failing-input-found")
            rc = 1
        cov = dict(self.cov)
        cov.update({
            "obligations": self.obligations, "discharged": self.discharged,
            "checker_cmd": " ; ".join(dict.fromkeys(self.checker_cmds)) or "none",
            "trusted_base": self.trusted,
            "theorems": self.theorems,
            "evaluations": self.evaluations, "distinct_nontrivial": len(self.nontrivial),
            "rule": self.rule, "samples": self.samples or ["(none)"],
            "correspondence": self.corr,
            "broken_obligations": [b[0] for b in self.broken],
            "spec_failures_on_impl": len(self.violations),
            "known_findings_reproduced": list(seen_known),
        })
        if self.notes: cov["notes"] = self.notes
        ev = {"property_id": self.pid, "tier": self.tier, "seed": self.seed, "level": self.level,
              "coverage": cov, "assumptions": self.assumptions,
              "wall_s": round(time.time() - self.t0, 2), "violations": len(new_v) + (1 if self.broken and not new_v else 0)}
        # evidence/ and replays/ only ever describe runs against /repo itself; a run against another copy
        # (VERIF_REPO, used to test the checks against seeded changes) writes under .build unless told otherwise
        evdir = os.environ.get("VERIF_EVIDENCE_DIR", os.path.join(VERIF, "evidence" if REPO == "/repo" else ".build/evidence-other-repo"))
        # development entry points that are not properties (e.g. C16B = the backend half of C16 on its own)
        # never write into evidence/, which holds exactly one file per property
        if self.pid not in {json.loads(l)["id"] for l in open(os.path.join(VERIF, "properties.jsonl"))}:
            evdir = os.path.join(VERIF, ".build/evidence-dev")
        os.makedirs(evdir, exist_ok=True)
        json.dump(ev, open(os.path.join(evdir, self.pid + ".json"), "w"), indent=1, sort_keys=True)
        for l in lines: print(l)
        for n, d in self.broken:
            print(f"BROKEN: {n}: {d[:1500]}", file=sys.stderr)
        print(f"{self.pid} {self.tier}: obligations {self.discharged}/{self.obligations}, "
              f"corr {sum(c['cases'] for c in self.corr.values())} cases / {sum(c['mismatches'] for c in self.corr.values())} mismatches, "
              f"spec failures {len(self.violations)} ({len(new_v)} new), {ev['wall_s']}s -> exit {rc}")
        return rc
