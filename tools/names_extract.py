"""C13: extract every core import / export declaration (module, name, core signature) from the
text a binding generator produced.  One extractor per backend; all of them are *syntactic*
(regular expressions over the generated source, as DESIGN §7 C13 says).

extract(backend, files) -> list of dict(kind='I'|'E', module, name, params, results, ident, file,
                                         referenced)
  params/results: lists of wasm32 core types ('i32','i64','f32','f64'); None when the declaration
  could not be parsed (reported by the check as an extraction failure, never skipped silently).
  referenced: the declared identifier occurs somewhere else in the generated files (imports only;
  exports are roots).  For C and Rust every import is declared at its use site -> always True.
"""
import re, json


def _split_params(s):
    out, depth, cur = [], 0, ""
    for ch in s:
        if ch in "(<[{":
            depth += 1
        elif ch in ")>]}":
            depth -= 1
        if ch == "," and depth == 0:
            out.append(cur.strip()); cur = ""
        else:
            cur += ch
    if cur.strip():
        out.append(cur.strip())
    return out


def _decl_after(text, pos):
    """The declaration text following position `pos` up to the first `{` or `;` at depth 0."""
    depth, i, n = 0, pos, len(text)
    while i < n:
        ch = text[i]
        if ch in "([":
            depth += 1
        elif ch in ")]":
            depth -= 1
        elif ch in "{;" and depth == 0:
            return text[pos:i]
        i += 1
    return text[pos:]


def _fn_parts(decl):
    """(prefix before the identifier, identifier, params text, suffix after the closing paren)"""
    i = decl.find("(")
    while i >= 0:
        # skip attribute-like parens:  extern(C)  __attribute__((..))  pragma(..)
        head = decl[:i].rstrip()
        m = re.search(r"([A-Za-z_$][\w$]*)$", head)
        if m and m.group(1) not in ("extern", "__attribute__", "pragma", "__declspec"):
            depth, j = 0, i
            while j < len(decl):
                if decl[j] == "(":
                    depth += 1
                elif decl[j] == ")":
                    depth -= 1
                    if depth == 0:
                        break
                j += 1
            return head[:m.start()], m.group(1), decl[i + 1:j], decl[j + 1:]
        # skip this paren group
        depth, j = 0, i
        while j < len(decl):
            if decl[j] == "(":
                depth += 1
            elif decl[j] == ")":
                depth -= 1
                if depth == 0:
                    break
            j += 1
        i = decl.find("(", j + 1)
    return None


# ---------------------------------------------------------------- per-language core types
def c_type(t):
    t = re.sub(r"\b(const|volatile|struct|restrict)\b", " ", t).strip()
    if t in ("void", ""):
        return None
    if "*" in t:
        return "i32"
    if re.search(r"\b(int64_t|uint64_t|long long)\b", t):
        return "i64"
    if re.fullmatch(r"float", t):
        return "f32"
    if re.fullmatch(r"double", t):
        return "f64"
    if re.fullmatch(r"(u?int(8|16|32)_t|size_t|bool|int|unsigned|uintptr_t|intptr_t|[A-Za-z_]\w*_t)", t):
        return "i32"
    return "?" + t


def c_param_type(p):
    p = p.strip()
    if p == "void" or not p:
        return None
    if "*" in p:
        return "i32"
    # `type name` or just `type`
    m = re.fullmatch(r"(.*?)(\s+[A-Za-z_]\w*)?", p)
    base = m.group(1).strip() if m else p
    # a single identifier is a type without a name
    if m and m.group(2) is None:
        base = p
    return c_type(base)


def rust_type(t):
    t = t.strip()
    if t in ("i32", "u32", "usize", "isize") or t.startswith("*mut ") or t.startswith("*const "):
        return "i32"
    if t in ("i64", "u64") or t.replace(" ", "") == "::core::mem::MaybeUninit::<u64>":
        return "i64"
    if t in ("f32", "f64"):
        return t
    return "?" + t


def go_type(t):
    t = t.strip()
    if t in ("int32", "uint32", "uintptr", "unsafe.Pointer"):
        return "i32"
    if t in ("int64", "uint64"):
        return "i64"
    if t == "float32":
        return "f32"
    if t == "float64":
        return "f64"
    return "?" + t


def mbt_type(t):
    t = t.strip()
    if t in ("Int", "UInt"):
        return "i32"
    if t in ("Int64", "UInt64"):
        return "i64"
    if t == "Float":
        return "f32"
    if t == "Double":
        return "f64"
    if t == "Unit":
        return None
    return "?" + t


def cs_type(t):
    if "*" in t:
        return "i32"
    t = re.sub(r"\b(unsafe|in|ref|out)\b", " ", t).strip()
    if t == "void":
        return None
    if t.endswith("*") or t in ("int", "uint", "nint", "nuint", "IntPtr", "UIntPtr", "byte", "sbyte", "short", "ushort", "bool", "char"):
        return "i32"
    if t in ("long", "ulong"):
        return "i64"
    if t == "float":
        return "f32"
    if t == "double":
        return "f64"
    return "?" + t


def d_type(t):
    if "*" in t:
        return "i32"
    t = re.sub(r"\b(in|scope|const|ref)\b", " ", t).strip()
    if t == "void" or t == "":
        return None
    if t.endswith("*"):
        return "i32"
    if t in ("uint", "int", "size_t", "ptrdiff_t", "ubyte", "byte", "ushort", "short", "bool", "dchar"):
        return "i32"
    if t in ("ulong", "long"):
        return "i64"
    if t == "float":
        return "f32"
    if t == "double":
        return "f64"
    return "?" + t


def _sig(params, ret, ptype, rtype):
    ps = [ptype(p) for p in params]
    ps = [p for p in ps if p is not None]
    r = rtype(ret)
    bad = [p for p in ps if p.startswith("?")] + ([r] if r and r.startswith("?") else [])
    if bad:
        return None, None, bad
    return ps, ([r] if r else []), []


def _typed_last(p):
    """`name type` (Go) -> type"""
    p = p.strip()
    return p.split()[-1] if p else ""


def _typed_colon(p):
    """`name : type` / `_: type` -> type"""
    return p.split(":", 1)[1].strip() if ":" in p else p.strip()


def _typed_first(p):
    """`type name` (C#, D) -> type ; a lone token is a type"""
    p = p.strip()
    m = re.fullmatch(r"(.*\S)\s+([A-Za-z_@]\w*)", p)
    if m and not m.group(1).strip().endswith(","):
        return m.group(1).strip()
    return p


# ---------------------------------------------------------------- extractors
def _mk(kind, module, name, ident, file, params, results, problems):
    return {"kind": kind, "module": module, "name": name, "ident": ident, "file": file,
            "params": params, "results": results, "problems": problems, "referenced": True}


def extract_c(files, cpp=False):
    out = []
    imp = re.compile(r'__attribute__\(\(\s*_*import_module_*\("((?:[^"\\]|\\.)*)"\)\s*(?:,\s*|\)\)\s*__attribute__\(\()_*import_name_*\("((?:[^"\\]|\\.)*)"\)\)\)')
    exp = re.compile(r'__attribute__\(\((?:__weak__,\s*)?__export_name__\("((?:[^"\\]|\\.)*)"\)\)\)')
    for fname, text in files:
        if not (fname.endswith(".c") or fname.endswith(".cpp")):
            continue
        for m in imp.finditer(text):
            decl = _decl_after(text, m.end())
            parts = _fn_parts(decl)
            if not parts:
                out.append(_mk("I", m.group(1), m.group(2), "?", fname, None, None, ["unparsed: " + decl[:80]])); continue
            pre, ident, ps, _ = parts
            ret = re.sub(r'\bextern\b|"C"', " ", pre).strip()
            params, results, bad = _sig(_split_params(ps), ret, c_param_type, c_type)
            out.append(_mk("I", m.group(1), m.group(2), ident, fname, params, results, bad))
        for m in exp.finditer(text):
            decl = _decl_after(text, m.end())
            parts = _fn_parts(decl)
            if not parts:
                out.append(_mk("E", None, m.group(1), "?", fname, None, None, ["unparsed: " + decl[:80]])); continue
            pre, ident, ps, _ = parts
            ret = re.sub(r'\bextern\b|"C"', " ", pre).strip()
            params, results, bad = _sig(_split_params(ps), ret, c_param_type, c_type)
            out.append(_mk("E", None, m.group(1), ident, fname, params, results, bad))
    return out


def extract_rust(files):
    out = []
    for fname, text in files:
        if not fname.endswith(".rs"):
            continue
        # #[link(wasm_import_module = "M")] unsafe extern "C" { (#[link_name = "N"] fn f(..) -> T;)* }
        for bm in re.finditer(r'#\[link\(wasm_import_module\s*=\s*"((?:[^"\\]|\\.)*)"\)\]\s*(?:unsafe\s+)?extern\s+"C"\s*\{', text):
            depth, i = 1, bm.end()
            while i < len(text) and depth:
                depth += text[i] == "{"
                depth -= text[i] == "}"
                i += 1
            block = text[bm.end():i - 1]
            for m in re.finditer(r'#\[(?:unsafe\()?link_name\s*=\s*"((?:[^"\\]|\\.)*)"\)?\]\s*(?:pub\s+)?fn\s+(\w+)\s*\(([^)]*)\)\s*(?:->\s*([^;]+))?;', block):
                params = [p for p in _split_params(m.group(3)) if p]
                ps, rs, bad = _sig(params, m.group(4) or "", lambda p: rust_type(_typed_colon(p)),
                                   lambda r: rust_type(r) if r.strip() else None)
                out.append(_mk("I", bm.group(1), m.group(1), m.group(2), fname, ps, rs, bad))
        for m in re.finditer(r'#\[(?:unsafe\()?export_name\s*=\s*"((?:[^"\\]|\\.)*)"\)?\]', text):
            decl = _decl_after(text, m.end())
            fm = re.search(r'fn\s+(\w+)\s*\((.*)\)\s*(?:->\s*(.+))?$', decl.strip(), re.S)
            if not fm:
                out.append(_mk("E", None, m.group(1), "?", fname, None, None, ["unparsed: " + decl[:80]])); continue
            params = [p for p in _split_params(fm.group(2)) if p]
            ps, rs, bad = _sig(params, fm.group(3) or "", lambda p: rust_type(_typed_colon(p)),
                               lambda r: rust_type(r) if r.strip() else None)
            out.append(_mk("E", None, m.group(1), fm.group(1), fname, ps, rs, bad))
    # link_name attributes outside any recognised extern block would be missed above: count them
    n_link = sum(len(re.findall(r'link_name\s*=\s*"', t)) for f, t in files if f.endswith(".rs"))
    n_got = sum(1 for d in out if d["kind"] == "I")
    if n_link != n_got:
        out.append(_mk("I", "?", "?", "?", "?", None, None, [f"{n_link} link_name attributes but {n_got} parsed"]))
    return out


def extract_go(files):
    out = []
    for fname, text in files:
        if not fname.endswith(".go"):
            continue
        for m in re.finditer(r'^//go:wasm(import|export)[ \t]+(.*)$', text, re.M):
            rest = m.group(2).rstrip()
            if m.group(1) == "import":
                module, _, name = rest.partition(" ")
                name = name.strip()
            else:
                module, name = None, rest
            decl = text[m.end():].lstrip("\n")
            line = decl.split("\n", 1)[0]
            fm = re.match(r'func\s+(\w+)\s*\((.*?)\)\s*([^{]*)\{?\s*$', line)
            kind = "I" if m.group(1) == "import" else "E"
            if not fm:
                out.append(_mk(kind, module, name, "?", fname, None, None, ["unparsed: " + line[:80]])); continue
            params = [p for p in _split_params(fm.group(2)) if p]
            # Go allows `a, b int32`: propagate the type backwards
            tys = []
            for p in reversed(params):
                tys.append(p.split()[-1] if len(p.split()) > 1 else (tys[-1] if tys else "?"))
            tys.reverse()
            ps, rs, bad = _sig(tys, fm.group(3).strip(), go_type, lambda r: go_type(r) if r else None)
            out.append(_mk(kind, module, name, fm.group(1), fname, ps, rs, bad))
    return out


def extract_moonbit(files):
    out = []
    fdefs = {}      # (dir, func) -> (params, ret)
    for fname, text in files:
        if not fname.endswith(".mbt"):
            continue
        d = fname.rsplit("/", 1)[0] if "/" in fname else ""
        for m in re.finditer(r'^\s*(?:pub\s+)?(?:extern\s+"wasm"\s+)?fn\s+(\w+)\s*\(([^)]*)\)\s*(?:->\s*([\w\[\]]+))?\s*=\s*"((?:[^"\\]|\\.)*)"\s+"((?:[^"\\]|\\.)*)"', text, re.M):
            params = [p for p in _split_params(m.group(2)) if p]
            ps, rs, bad = _sig(params, m.group(3) or "Unit", lambda p: mbt_type(_typed_colon(p)), mbt_type)
            out.append(_mk("I", m.group(4), m.group(5), m.group(1), fname, ps, rs, bad))
        for m in re.finditer(r'^\s*pub\s+fn\s+(\w+)\s*\(([^)]*)\)\s*->\s*(\w+)\s*\{', text, re.M):
            fdefs[(d, m.group(1))] = (m.group(2), m.group(3))
    for fname, text in files:
        if not (fname.endswith("moon.pkg.json") or fname.endswith("moon.pkg")):
            continue
        d = fname.rsplit("/", 1)[0] if "/" in fname else ""
        try:
            exports = (json.loads(text).get("link") or {}).get("wasm", {}).get("exports", [])
        except Exception as e:
            if '"exports"' in text:
                out.append(_mk("E", None, "?", "?", fname, None, None, ["moon.pkg.json is not JSON: " + str(e)[:60]]))
            continue
        for ex in exports:
            func, _, name = ex.partition(":")
            fd = fdefs.get((d, func))
            if func == "mbt_ffi_cabi_realloc" and not fd:
                # defined in the ffi support file with MoonBit types; its signature is fixed
                fd = next((v for (dd, f), v in fdefs.items() if f == func), None)
            if not fd:
                out.append(_mk("E", None, name, func, fname, None, None, ["export function not found: " + func])); continue
            params = [p for p in _split_params(fd[0]) if p]
            ps, rs, bad = _sig(params, fd[1], lambda p: mbt_type(_typed_colon(p)), mbt_type)
            out.append(_mk("E", None, name, func, fname, ps, rs, bad))
    return out


def extract_csharp(files):
    out = []
    for fname, text in files:
        if not fname.endswith(".cs"):
            continue
        for m in re.finditer(r'DllImportAttribute\("((?:[^"\\]|\\.)*)",\s*EntryPoint\s*=\s*"((?:[^"\\]|\\.)*)"\)\s*,\s*global::System\.Runtime\.InteropServices\.WasmImportLinkageAttribute\]', text):
            decl = _decl_after(text, m.end())
            parts = _fn_parts(decl)
            if not parts:
                out.append(_mk("I", m.group(1), m.group(2), "?", fname, None, None, ["unparsed: " + decl[:80]])); continue
            pre, ident, ps, _ = parts
            ret = re.sub(r'\b(public|internal|private|protected|static|extern|unsafe)\b', " ", pre).strip()
            params, results, bad = _sig(_split_params(ps), ret, lambda p: cs_type(_typed_first(p)), cs_type)
            out.append(_mk("I", m.group(1), m.group(2), ident, fname, params, results, bad))
        for m in re.finditer(r'UnmanagedCallersOnlyAttribute\(EntryPoint\s*=\s*"((?:[^"\\]|\\.)*)"\)\]', text):
            decl = _decl_after(text, m.end())
            parts = _fn_parts(decl)
            if not parts:
                out.append(_mk("E", None, m.group(1), "?", fname, None, None, ["unparsed: " + decl[:80]])); continue
            pre, ident, ps, _ = parts
            ret = re.sub(r'\b(public|internal|private|protected|static|extern|unsafe)\b', " ", pre).strip()
            params, results, bad = _sig(_split_params(ps), ret, lambda p: cs_type(_typed_first(p)), cs_type)
            out.append(_mk("E", None, m.group(1), ident, fname, params, results, bad))
    n_attr = sum(len(re.findall(r'DllImportAttribute\(', t)) for f, t in files if f.endswith(".cs"))
    n_got = sum(1 for d in out if d["kind"] == "I")
    if n_attr != n_got:
        out.append(_mk("I", "?", "?", "?", "?", None, None, [f"{n_attr} DllImport attributes but {n_got} parsed"]))
    return out


def extract_d(files):
    out = []
    for fname, text in files:
        if not fname.endswith(".d"):
            continue
        for m in re.finditer(r'@wasm(Import|Export)!\(\s*"((?:[^"\\]|\\.)*)"\s*(?:,\s*"((?:[^"\\]|\\.)*)"\s*)?\)', text):
            kind = "I" if m.group(1) == "Import" else "E"
            module, name = (m.group(2), m.group(3)) if kind == "I" else (None, m.group(2))
            rest = text[m.end():]
            rest = re.sub(r'^\s*pragma\(mangle,\s*"[^"]*"\)', "", rest)
            decl = _decl_after(rest, 0)
            parts = _fn_parts(decl)
            if not parts:
                out.append(_mk(kind, module, name, "?", fname, None, None, ["unparsed: " + decl[:80]])); continue
            pre, ident, ps, _ = parts
            ret = re.sub(r'\b(static|private|public|extern\(C\)|export|nothrow|@nogc|@trusted|@safe)\b|extern\(C\)', " ", pre).strip()
            params, results, bad = _sig(_split_params(ps), ret, lambda p: d_type(_typed_first(p)), d_type)
            out.append(_mk(kind, module, name, ident, fname, params, results, bad))
    return out


def _mark_referenced(decls, files, exts):
    blob = "\n".join(t for f, t in files if f.endswith(exts))
    counts = {}
    for d in decls:
        if d["kind"] != "I" or d["ident"] in ("?",):
            continue
        k = d["ident"]
        if k not in counts:
            counts[k] = len(re.findall(r'(?<![\w])' + re.escape(k) + r'(?![\w])', blob))
        ndecl = sum(1 for e in decls if e["kind"] == "I" and e["ident"] == k)
        d["referenced"] = counts[k] > ndecl


def extract(backend, files):
    if backend == "c":
        return extract_c(files)
    if backend == "cpp":
        d = extract_c(files, cpp=True)
        _mark_referenced(d, files, (".cpp", ".h"))
        return d
    if backend == "rust":
        return extract_rust(files)
    if backend == "go":
        d = extract_go(files); _mark_referenced(d, files, (".go",)); return d
    if backend == "moonbit":
        d = extract_moonbit(files); _mark_referenced(d, files, (".mbt",)); return d
    if backend == "csharp":
        d = extract_csharp(files); _mark_referenced(d, files, (".cs",)); return d
    if backend == "d":
        d = extract_d(files); _mark_referenced(d, files, (".d",)); return d
    raise ValueError(backend)


def raw_attribute_count(backend, files):
    """Independent count of declaration markers, to make sure the structured extraction saw all."""
    pats = {
        "c": (r'__import_name__\("', r'__export_name__\("'),
        "cpp": (r'import_name_*\("', r'__export_name__\("'),
        "rust": (r'link_name\s*=\s*"', r'export_name\s*=\s*"'),
        "go": (r'^//go:wasmimport ', r'^//go:wasmexport '),
        "csharp": (r'DllImportAttribute\(', r'UnmanagedCallersOnlyAttribute\(EntryPoint'),
        "d": (r'@wasmImport!\(', r'@wasmExport!\('),
        "moonbit": (r'=\s*"(?:[^"\\]|\\.)*"\s+"(?:[^"\\]|\\.)*"\s*$', None),
    }[backend]
    exts = {"c": (".c",), "cpp": (".cpp",), "rust": (".rs",), "go": (".go",), "csharp": (".cs",),
            "d": (".d",), "moonbit": (".mbt",)}[backend]
    ni = ne = 0
    for f, t in files:
        if not f.endswith(exts):
            continue
        ni += len(re.findall(pats[0], t, re.M))
        if pats[1]:
            ne += len(re.findall(pats[1], t, re.M))
    return ni, ne
