//! Shared by all engines: build the REAL generator of a backend for a named option variant
//! (the variants are the ones `crates/test/src/<lang>.rs` runs: `codegen_test_variants` on top of
//! `default_bindgen_args[_for_codegen]`), load a WIT input, run `WorldGenerator::generate`.
use std::panic::{catch_unwind, AssertUnwindSafe};
use wit_bindgen_core::{AsyncFilterSet, Files, WorldGenerator};
use wit_parser::{Resolve, WorldId};

pub fn hex(s: &str) -> String {
    if s.is_empty() {
        return "-".into();
    }
    s.bytes().map(|b| format!("{b:02x}")).collect()
}

pub fn unhex(h: &str) -> Option<String> {
    if h == "-" {
        return Some(String::new());
    }
    if h.len() % 2 != 0 {
        return None;
    }
    let mut v = Vec::new();
    for i in (0..h.len()).step_by(2) {
        v.push(u8::from_str_radix(h.get(i..i + 2)?, 16).ok()?);
    }
    String::from_utf8(v).ok()
}

pub fn panic_msg(e: Box<dyn std::any::Any + Send>) -> String {
    if let Some(s) = e.downcast_ref::<&str>() {
        s.to_string()
    } else if let Some(s) = e.downcast_ref::<String>() {
        s.clone()
    } else {
        "?".into()
    }
}

/// (backend, variant) pairs, as run by `wit-bindgen test` for codegen tests.
pub const VARIANTS: &[(&str, &[&str])] = &[
    ("rust", &["default", "borrowed", "borrowed-duplicate", "async", "no-std", "merge-equal", "hashmap"]),
    ("c", &["default", "no-sig-flattening", "autodrop", "async"]),
    ("cpp", &["default"]),
    ("csharp", &["default"]),
    ("go", &["default"]),
    ("moonbit", &["default", "async"]),
    ("d", &["default"]),
    ("markdown", &["default"]),
];

/// The `--async` directives a variant passes (empty = none).
pub fn async_directives(backend: &str, variant: &str) -> Vec<&'static str> {
    match (backend, variant) {
        ("rust", "async") | ("c", "async") | ("moonbit", "async") => vec!["all"],
        _ => vec![],
    }
}

/// Whether the backend consults an `AsyncFilterSet` at all (else: the WIT `async` keyword decides).
pub fn has_async_filter(backend: &str) -> bool {
    matches!(backend, "rust" | "c" | "moonbit" | "go")
}

pub fn filter_for(backend: &str, variant: &str) -> AsyncFilterSet {
    let mut f = AsyncFilterSet::default();
    for d in async_directives(backend, variant) {
        f.push(d);
    }
    f
}

pub fn generator(backend: &str, variant: &str) -> Option<Box<dyn WorldGenerator>> {
    Some(match backend {
        "rust" => {
            let mut o = wit_bindgen_rust::Opts::default();
            o.generate_all = true; // default_bindgen_args
            o.stubs = true; // default_bindgen_args_for_codegen
            match variant {
                "default" => {}
                "borrowed" => {
                    o.ownership = wit_bindgen_rust::Ownership::Borrowing { duplicate_if_necessary: false }
                }
                "borrowed-duplicate" => {
                    o.ownership = wit_bindgen_rust::Ownership::Borrowing { duplicate_if_necessary: true }
                }
                "async" => o.async_ = filter_for(backend, variant),
                "no-std" => o.std_feature = true,
                "merge-equal" => o.merge_structurally_equal_types = Some(Some(true)),
                "hashmap" => o.map_type = Some("std::collections::HashMap".into()),
                _ => return None,
            }
            Box::new(o.build())
        }
        "c" => {
            let mut o = wit_bindgen_c::Opts::default();
            match variant {
                "default" => {}
                "no-sig-flattening" => o.no_sig_flattening = true,
                "autodrop" => o.autodrop_borrows = wit_bindgen_c::Enabled::Yes,
                "async" => o.async_ = filter_for(backend, variant),
                _ => return None,
            }
            o.build()
        }
        "cpp" => {
            if variant != "default" {
                return None;
            }
            wit_bindgen_cpp::Opts::default().build(None)
        }
        "csharp" => {
            if variant != "default" {
                return None;
            }
            let mut o = wit_bindgen_csharp::Opts::default();
            o.generate_stub = true;
            o.build()
        }
        "go" => {
            if variant != "default" {
                return None;
            }
            let mut o = wit_bindgen_go::Opts::default();
            o.generate_stubs = true;
            o.build()
        }
        "moonbit" => {
            let mut o = wit_bindgen_moonbit::Opts::default();
            o.gen_dir = "gen".into(); // the CLI's default_value
            o.derive.derive_debug = true;
            o.derive.derive_show = true;
            o.derive.derive_eq = true;
            o.derive.derive_error = true;
            match variant {
                "default" => {}
                "async" => o.async_ = filter_for(backend, variant),
                _ => return None,
            }
            o.build()
        }
        "d" => {
            if variant != "default" {
                return None;
            }
            wit_bindgen_d::Opts::default().build(None)
        }
        "markdown" => {
            if variant != "default" {
                return None;
            }
            wit_bindgen_markdown::Opts::default().build()
        }
        _ => return None,
    })
}

/// WIT input: `t:<hex text>` (single file) or `p:<hex path>` (file or directory, `push_path`).
pub fn load(input: &str, world: &str) -> anyhow::Result<(Resolve, WorldId)> {
    let mut resolve = Resolve::default();
    resolve.all_features = true;
    let pkg = if let Some(h) = input.strip_prefix("t:") {
        let text = unhex(h).ok_or_else(|| anyhow::anyhow!("wit not hex"))?;
        resolve.push_str("case.wit", &text)?
    } else if let Some(h) = input.strip_prefix("p:") {
        let path = unhex(h).ok_or_else(|| anyhow::anyhow!("path not hex"))?;
        resolve.push_path(&path)?.0
    } else {
        anyhow::bail!("input must be t:<hex> or p:<hex>")
    };
    let w = if world == "-" { None } else { Some(world) };
    let world = resolve.select_world(&[pkg], w)?;
    Ok((resolve, world))
}

pub enum Outcome {
    Ok(Files),
    Err(String),
    Panic(String),
}

/// Run the real generator on a *fresh* Resolve (generate() mutates it: nominal type ids).
pub fn run(backend: &str, variant: &str, input: &str, world: &str) -> Result<Outcome, String> {
    let Some(mut g) = generator(backend, variant) else {
        return Err(format!("unknown backend/variant {backend}/{variant}"));
    };
    let (mut resolve, world) = load(input, world).map_err(|e| format!("wit: {e:#}"))?;
    let r = catch_unwind(AssertUnwindSafe(|| -> anyhow::Result<Files> {
        let mut files = Files::default();
        g.generate(&mut resolve, world, &mut files)?;
        Ok(files)
    }));
    Ok(match r {
        Ok(Ok(f)) => Outcome::Ok(f),
        Ok(Err(e)) => Outcome::Err(format!("{e:#}")),
        Err(e) => Outcome::Panic(panic_msg(e)),
    })
}
