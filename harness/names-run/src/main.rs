//! Line server for C13 / C15: runs the real binding generators (public `Opts` + `build()` +
//! `WorldGenerator::generate`) in-process.   usage: names-run <engine>
//! Engines: names (C13: files + world description + oracles), encode (C13: ComponentEncoder on a
//! synthetic module), determ (C15: per-file fingerprints).  One answer line per request line.
use std::io::{BufRead, Write};

mod determ;
mod encode;
mod gen;
mod names;

fn main() {
    let engine = std::env::args().nth(1).expect("engine");
    let f: fn(&str) -> String = match engine.as_str() {
        "names" => names::handle,
        "encode" => encode::handle,
        "determ" => determ::handle,
        "variants" => {
            for (b, vs) in gen::VARIANTS {
                println!("{b} {}", vs.join(" "));
            }
            return;
        }
        other => panic!("unknown engine {other}"),
    };
    std::panic::set_hook(Box::new(|_| {}));
    let stdin = std::io::stdin();
    let stdout = std::io::stdout();
    let mut out = std::io::BufWriter::new(stdout.lock());
    for line in stdin.lock().lines() {
        let line = line.unwrap();
        let ans = match std::panic::catch_unwind(|| f(&line)) {
            Ok(a) => a,
            Err(e) => format!("panic {}", gen::hex(&gen::panic_msg(e))),
        };
        writeln!(out, "{ans}").unwrap();
        out.flush().unwrap();
    }
}
