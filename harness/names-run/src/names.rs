//! Engine `names` (C13).  One request per line:
//!     `<backend> <variant> <input> <world|->`         input = t:<hex wit text> | p:<hex path>
//! Answer: one JSON object (single line):
//!   status   "ok" | "err" | "panic" | "bad-request"          (of the real generator)
//!   msg      error / panic message
//!   files    [[name, text], …]        every generated file (lossy UTF-8)
//!   desc     the world as an S-expression for the Lean driver `m_names` (see Drivers/Names.lean)
//!   wp       {label: "I mod name params results" | "E name params results"}   ORACLE 1:
//!            wit-parser's own `wasm_import_name` / `wasm_export_name` / `wasm_signature` /
//!            `task_return_import` over every item of the world and every LiftLowerAbi
//!   sites    {funclabel: "f:12 s:13 …"}  wit-parser's `find_futures_and_streams` (kind:typeid)
//!   dummy    {"sync": {...}, "async": {...}}     ORACLE 2: imports/exports (with core types) of
//!            `wit_component::dummy_module` parsed back with wasmparser; "async" = AsyncCallback
//!            mangling (wit-parser applies it to the functions declared `async` only)
//! Engine `encode`: see encode.rs.
use crate::gen::*;
use std::collections::BTreeMap;
use std::fmt::Write as _;
use wit_parser::abi::{WasmSignature, WasmType};
use wit_parser::*;

// ------------------------------------------------------------------ JSON (minimal writer)
pub fn jstr(s: &str) -> String {
    let mut o = String::with_capacity(s.len() + 2);
    o.push('"');
    for c in s.chars() {
        match c {
            '"' => o.push_str("\\\""),
            '\\' => o.push_str("\\\\"),
            '\n' => o.push_str("\\n"),
            '\r' => o.push_str("\\r"),
            '\t' => o.push_str("\\t"),
            c if (c as u32) < 0x20 => write!(o, "\\u{:04x}", c as u32).unwrap(),
            c => o.push(c),
        }
    }
    o.push('"');
    o
}

fn jmap(m: &BTreeMap<String, String>) -> String {
    let mut o = String::from("{");
    for (i, (k, v)) in m.iter().enumerate() {
        if i > 0 {
            o.push(',');
        }
        o.push_str(&jstr(k));
        o.push(':');
        o.push_str(&jstr(v));
    }
    o.push('}');
    o
}

// ------------------------------------------------------------------ type terms (as abi-trace)
fn ty_term(r: &Resolve, t: &Type) -> String {
    match t {
        Type::Bool => "bool".into(),
        Type::U8 => "u8".into(),
        Type::S8 => "s8".into(),
        Type::U16 => "u16".into(),
        Type::S16 => "s16".into(),
        Type::U32 => "u32".into(),
        Type::S32 => "s32".into(),
        Type::U64 => "u64".into(),
        Type::S64 => "s64".into(),
        Type::F32 => "f32".into(),
        Type::F64 => "f64".into(),
        Type::Char => "char".into(),
        Type::String => "string".into(),
        Type::ErrorContext => "errctx".into(),
        Type::Id(id) => match &r.types[*id].kind {
            TypeDefKind::Type(t) => ty_term(r, t),
            TypeDefKind::List(t) => format!("(list {})", ty_term(r, t)),
            TypeDefKind::FixedLengthList(t, n) => format!("(flist {} {n})", ty_term(r, t)),
            TypeDefKind::Map(k, v) => format!("(map {} {})", ty_term(r, k), ty_term(r, v)),
            TypeDefKind::Record(rec) => {
                let mut s = "(record".to_string();
                for f in &rec.fields {
                    write!(s, " {}", ty_term(r, &f.ty)).unwrap();
                }
                s + ")"
            }
            TypeDefKind::Tuple(t) => {
                let mut s = "(tuple".to_string();
                for f in &t.types {
                    write!(s, " {}", ty_term(r, f)).unwrap();
                }
                s + ")"
            }
            TypeDefKind::Flags(f) => format!("(flags {})", f.flags.len()),
            TypeDefKind::Enum(e) => format!("(enum {})", e.cases.len()),
            TypeDefKind::Variant(v) => {
                let mut s = "(variant".to_string();
                for c in &v.cases {
                    write!(s, " {}", opt_term(r, c.ty.as_ref())).unwrap();
                }
                s + ")"
            }
            TypeDefKind::Option(t) => format!("(option {})", ty_term(r, t)),
            TypeDefKind::Result(res) => {
                format!("(result {} {})", opt_term(r, res.ok.as_ref()), opt_term(r, res.err.as_ref()))
            }
            TypeDefKind::Handle(Handle::Own(_)) => "own".into(),
            TypeDefKind::Handle(Handle::Borrow(_)) => "borrow".into(),
            TypeDefKind::Future(t) => format!("(future {})", opt_term(r, t.as_ref())),
            TypeDefKind::Stream(t) => format!("(stream {})", opt_term(r, t.as_ref())),
            TypeDefKind::Resource => "own".into(),
            TypeDefKind::Unknown => "unknown".into(),
        },
    }
}

fn opt_term(r: &Resolve, t: Option<&Type>) -> String {
    match t {
        Some(t) => ty_term(r, t),
        None => "_".into(),
    }
}

fn func_term(r: &Resolve, f: &Function) -> String {
    let kind = match &f.kind {
        FunctionKind::Method(_) | FunctionKind::AsyncMethod(_) => "method",
        _ => "free",
    };
    let mut s = format!("(fn {kind} (");
    for (i, p) in f.params.iter().enumerate() {
        if i > 0 {
            s.push(' ');
        }
        s.push_str(&ty_term(r, &p.ty));
    }
    write!(s, ") {})", opt_term(r, f.result.as_ref())).unwrap();
    s
}

fn wt(t: &WasmType) -> &'static str {
    // wasm32 core types
    match t {
        WasmType::I32 | WasmType::Pointer | WasmType::Length => "i32",
        WasmType::I64 | WasmType::PointerOrI64 => "i64",
        WasmType::F32 => "f32",
        WasmType::F64 => "f64",
    }
}

fn wts(ts: &[WasmType]) -> String {
    if ts.is_empty() {
        "-".into()
    } else {
        ts.iter().map(wt).collect::<Vec<_>>().join(",")
    }
}

fn sig2(s: &WasmSignature) -> String {
    format!("{} {}", wts(&s.params), wts(&s.results))
}

// ------------------------------------------------------------------ descriptor for Lean
fn key_term(r: &Resolve, key: &WorldKey) -> String {
    match key {
        WorldKey::Name(s) => format!("(name {})", hex(s)),
        WorldKey::Interface(i) => {
            let iface = &r.interfaces[*i];
            let pkg = &r.packages[iface.package.unwrap()];
            format!(
                "(id {} {} {} {})",
                hex(&pkg.name.namespace),
                hex(&pkg.name.name),
                hex(iface.name.as_deref().unwrap_or("")),
                match &pkg.name.version {
                    Some(v) => hex(&v.to_string()),
                    None => "_".into(),
                }
            )
        }
    }
}

fn fn_term(r: &Resolve, f: &Function, sel: bool) -> String {
    let (kind, res) = match &f.kind {
        FunctionKind::Freestanding | FunctionKind::AsyncFreestanding => ("free", None),
        FunctionKind::Method(id) | FunctionKind::AsyncMethod(id) => ("method", Some(*id)),
        FunctionKind::Static(id) | FunctionKind::AsyncStatic(id) => ("static", Some(*id)),
        FunctionKind::Constructor(id) => ("ctor", Some(*id)),
    };
    let res = res.map(|id| r.types[id].name.clone().unwrap_or_default()).unwrap_or_default();
    let tids: Vec<String> = f.find_futures_and_streams(r).iter().map(|t| t.index().to_string()).collect();
    format!(
        "(f {kind} {} {} {} {} {} (tids{}{}))",
        hex(&res),
        hex(f.item_name()),
        f.kind.is_async() as u8,
        sel as u8,
        func_term(r, f),
        if tids.is_empty() { "" } else { " " },
        tids.join(" ")
    )
}

struct Ctx<'a> {
    r: &'a Resolve,
    backend: &'a str,
    filter: wit_bindgen_core::AsyncFilterSet,
    wp: BTreeMap<String, String>,
    sites: BTreeMap<String, String>,
}

impl<'a> Ctx<'a> {
    fn sel(&mut self, key: Option<&WorldKey>, f: &Function, import: bool) -> bool {
        if has_async_filter(self.backend) {
            self.filter.is_async(self.r, key, f, import)
        } else {
            f.kind.is_async()
        }
    }

    fn imp(&mut self, label: String, mn: (String, String), sig: String) {
        self.wp.insert(label, format!("I {} {} {}", hex(&mn.0), hex(&mn.1), sig));
    }
    fn exp(&mut self, label: String, n: String, sig: String) {
        self.wp.insert(label, format!("E {} {}", hex(&n), sig));
    }

    /// future/stream intrinsics of every payload site of `f`
    fn fs(&mut self, label: &str, key: Option<&WorldKey>, f: &Function, exported: bool) {
        let r = self.r;
        let ids = f.find_futures_and_streams(r);
        let mut s = String::new();
        for (i, id) in ids.iter().enumerate() {
            let stream = matches!(r.types[*id].kind, TypeDefKind::Stream(_));
            write!(s, "{}{}:{}", if i > 0 { " " } else { "" }, if stream { "s" } else { "f" }, id.index()).unwrap();
            // wit-parser names a site by the FIRST position holding the same TypeId
            let first = ids.iter().position(|x| x == id).unwrap();
            if first != i {
                continue;
            }
            let l = Legacy(LiftLowerAbi::Sync);
            let rw = if stream { "i32,i32,i32 i32" } else { "i32,i32 i32" };
            let ops: [(&str, bool, &str); 11] = [
                ("new", false, "- i64"),
                ("read", false, rw),
                ("write", false, rw),
                ("cancel-read", false, "i32 i32"),
                ("cancel-write", false, "i32 i32"),
                ("drop-readable", false, "i32 -"),
                ("drop-writable", false, "i32 -"),
                ("read", true, rw),
                ("write", true, rw),
                ("cancel-read", true, "i32 i32"),
                ("cancel-write", true, "i32 i32"),
            ];
            for (op, async_, sig) in ops {
                let mn = if stream {
                    let intrinsic = match op {
                        "new" => StreamIntrinsic::New,
                        "read" => StreamIntrinsic::Read,
                        "write" => StreamIntrinsic::Write,
                        "cancel-read" => StreamIntrinsic::CancelRead,
                        "cancel-write" => StreamIntrinsic::CancelWrite,
                        "drop-readable" => StreamIntrinsic::DropReadable,
                        _ => StreamIntrinsic::DropWritable,
                    };
                    r.wasm_import_name(
                        l,
                        WasmImport::StreamIntrinsic { interface: key, func: f, ty: Some(*id), intrinsic, exported, async_ },
                    )
                } else {
                    let intrinsic = match op {
                        "new" => FutureIntrinsic::New,
                        "read" => FutureIntrinsic::Read,
                        "write" => FutureIntrinsic::Write,
                        "cancel-read" => FutureIntrinsic::CancelRead,
                        "cancel-write" => FutureIntrinsic::CancelWrite,
                        "drop-readable" => FutureIntrinsic::DropReadable,
                        _ => FutureIntrinsic::DropWritable,
                    };
                    r.wasm_import_name(
                        l,
                        WasmImport::FutureIntrinsic { interface: key, func: f, ty: Some(*id), intrinsic, exported, async_ },
                    )
                };
                self.imp(format!("{label}.s{i}.{op}{}", if async_ { ".async" } else { "" }), mn, sig.to_string());
            }
        }
        self.sites.insert(label.to_string(), s);
    }

    fn import_func(&mut self, label: &str, key: Option<&WorldKey>, f: &Function) {
        let r = self.r;
        for (abi, tag) in [(LiftLowerAbi::Sync, "sync"), (LiftLowerAbi::AsyncCallback, "async")] {
            let sig = r.wasm_signature(abi.import_variant(), f);
            let mn = r.wasm_import_name(Legacy(abi), WasmImport::Func { interface: key, func: f });
            self.imp(format!("{label}.func.{tag}"), mn, sig2(&sig));
        }
        self.fs(label, key, f, false);
    }

    fn export_func(&mut self, label: &str, key: Option<&WorldKey>, f: &Function) {
        let r = self.r;
        for (abi, tag) in [
            (LiftLowerAbi::Sync, "sync"),
            (LiftLowerAbi::AsyncCallback, "acb"),
            (LiftLowerAbi::AsyncStackful, "astk"),
        ] {
            let sig = r.wasm_signature(abi.export_variant(), f);
            let n = r.wasm_export_name(Legacy(abi), WasmExport::Func { interface: key, func: f, kind: WasmExportKind::Normal });
            self.exp(format!("{label}.main.{tag}"), n, sig2(&sig));
            match abi {
                LiftLowerAbi::Sync => {
                    let n = r.wasm_export_name(
                        Legacy(abi),
                        WasmExport::Func { interface: key, func: f, kind: WasmExportKind::PostReturn },
                    );
                    self.exp(format!("{label}.post"), n, format!("{} -", wts(&sig.results)));
                }
                LiftLowerAbi::AsyncCallback => {
                    let n = r.wasm_export_name(
                        Legacy(abi),
                        WasmExport::Func { interface: key, func: f, kind: WasmExportKind::Callback },
                    );
                    self.exp(format!("{label}.cb"), n, "i32,i32,i32 i32".into());
                }
                LiftLowerAbi::AsyncStackful => {}
            }
        }
        let (m, n, sig) = f.task_return_import(r, key, Mangling::Legacy);
        self.imp(format!("{label}.taskret"), (m, n), sig2(&sig));
        self.fs(label, key, f, true);
    }

    fn resource_import(&mut self, label: &str, key: Option<&WorldKey>, id: TypeId) {
        let mn = self.r.wasm_import_name(
            Legacy(LiftLowerAbi::Sync),
            WasmImport::ResourceIntrinsic { interface: key, resource: id, intrinsic: ResourceIntrinsic::ImportedDrop },
        );
        self.imp(format!("{label}.drop"), mn, "i32 -".into());
    }

    fn resource_export(&mut self, label: &str, key: &WorldKey, id: TypeId) {
        for (intrinsic, tag, sig) in [
            (ResourceIntrinsic::ExportedDrop, "drop", "i32 -"),
            (ResourceIntrinsic::ExportedNew, "new", "i32 i32"),
            (ResourceIntrinsic::ExportedRep, "rep", "i32 i32"),
        ] {
            let mn = self.r.wasm_import_name(
                Legacy(LiftLowerAbi::Sync),
                WasmImport::ResourceIntrinsic { interface: Some(key), resource: id, intrinsic },
            );
            self.imp(format!("{label}.{tag}"), mn, sig.into());
        }
        let n = self
            .r
            .wasm_export_name(Legacy(LiftLowerAbi::Sync), WasmExport::ResourceDtor { interface: key, resource: id });
        self.exp(format!("{label}.dtor"), n, "i32 -".into());
    }
}

use ManglingAndAbi::Legacy;

/// Describe the world + compute oracle 1.  Returns (desc, wp, sites).
fn describe(
    r: &Resolve,
    world: WorldId,
    backend: &str,
    variant: &str,
) -> (String, BTreeMap<String, String>, BTreeMap<String, String>) {
    let mut cx = Ctx { r, backend, filter: filter_for(backend, variant), wp: BTreeMap::new(), sites: BTreeMap::new() };
    let w = &r.worlds[world];
    let mut desc = String::from("(world (imports");
    for (k, (key, item)) in w.imports.iter().enumerate() {
        match item {
            WorldItem::Function(f) => {
                let sel = cx.sel(None, f, true);
                write!(desc, " (func {})", fn_term(r, f, sel)).unwrap();
                cx.import_func(&format!("I{k}.f0"), None, f);
            }
            WorldItem::Interface { id, .. } => {
                write!(desc, " (iface {} (funcs", key_term(r, key)).unwrap();
                for (j, (_, f)) in r.interfaces[*id].functions.iter().enumerate() {
                    let sel = cx.sel(Some(key), f, true);
                    write!(desc, " {}", fn_term(r, f, sel)).unwrap();
                    cx.import_func(&format!("I{k}.f{j}"), Some(key), f);
                }
                desc.push_str(") (res");
                let mut j = 0;
                for (_, ty) in r.interfaces[*id].types.iter() {
                    if let TypeDefKind::Resource = r.types[*ty].kind {
                        write!(desc, " {}", hex(r.types[*ty].name.as_deref().unwrap_or(""))).unwrap();
                        cx.resource_import(&format!("I{k}.r{j}"), Some(key), *ty);
                        j += 1;
                    }
                }
                desc.push_str("))");
            }
            WorldItem::Type { id, .. } => {
                if let TypeDefKind::Resource = r.types[*id].kind {
                    write!(desc, " (rtype {})", hex(r.types[*id].name.as_deref().unwrap_or(""))).unwrap();
                    cx.resource_import(&format!("I{k}.r0"), None, *id);
                } else {
                    desc.push_str(" (type)");
                }
            }
        }
    }
    desc.push_str(") (exports");
    for (k, (key, item)) in w.exports.iter().enumerate() {
        match item {
            WorldItem::Function(f) => {
                let sel = cx.sel(None, f, false);
                write!(desc, " (func {})", fn_term(r, f, sel)).unwrap();
                cx.export_func(&format!("E{k}.f0"), None, f);
            }
            WorldItem::Interface { id, .. } => {
                write!(desc, " (iface {} (funcs", key_term(r, key)).unwrap();
                for (j, (_, f)) in r.interfaces[*id].functions.iter().enumerate() {
                    let sel = cx.sel(Some(key), f, false);
                    write!(desc, " {}", fn_term(r, f, sel)).unwrap();
                    cx.export_func(&format!("E{k}.f{j}"), Some(key), f);
                }
                desc.push_str(") (res");
                let mut j = 0;
                for (_, ty) in r.interfaces[*id].types.iter() {
                    if let TypeDefKind::Resource = r.types[*ty].kind {
                        write!(desc, " {}", hex(r.types[*ty].name.as_deref().unwrap_or(""))).unwrap();
                        cx.resource_export(&format!("E{k}.r{j}"), key, *ty);
                        j += 1;
                    }
                }
                desc.push_str("))");
            }
            WorldItem::Type { .. } => desc.push_str(" (type)"),
        }
    }
    desc.push_str("))");
    for (label, e) in [("G.memory", WasmExport::Memory), ("G.init", WasmExport::Initialize), ("G.realloc", WasmExport::Realloc)] {
        let n = r.wasm_export_name(Legacy(LiftLowerAbi::Sync), e);
        let sig = match label {
            "G.memory" => "memory -",
            "G.init" => "- -",
            _ => "i32,i32,i32,i32 i32",
        };
        cx.exp(label.into(), n, sig.into());
    }
    (desc, cx.wp, cx.sites)
}

// ------------------------------------------------------------------ oracle 2: dummy module
fn vt(t: &wasmparser::ValType) -> &'static str {
    match t {
        wasmparser::ValType::I32 => "i32",
        wasmparser::ValType::I64 => "i64",
        wasmparser::ValType::F32 => "f32",
        wasmparser::ValType::F64 => "f64",
        _ => "other",
    }
}

fn vts(ts: &[wasmparser::ValType]) -> String {
    if ts.is_empty() {
        "-".into()
    } else {
        ts.iter().map(vt).collect::<Vec<_>>().join(",")
    }
}

/// `["I mod name params results", "E name params results", …]` of a core module.
pub fn module_decls(bytes: &[u8]) -> anyhow::Result<Vec<String>> {
    let mut types: Vec<(String, String)> = Vec::new();
    let mut funcs: Vec<u32> = Vec::new(); // function index -> type index
    let mut out = Vec::new();
    for payload in wasmparser::Parser::new(0).parse_all(bytes) {
        match payload? {
            wasmparser::Payload::TypeSection(s) => {
                for rg in s {
                    for st in rg?.into_types() {
                        match st.composite_type.inner {
                            wasmparser::CompositeInnerType::Func(f) => {
                                types.push((vts(f.params()), vts(f.results())))
                            }
                            _ => types.push(("?".into(), "?".into())),
                        }
                    }
                }
            }
            wasmparser::Payload::ImportSection(s) => {
                for imp in s.into_imports() {
                    let imp = imp?;
                    if let wasmparser::TypeRef::Func(t) = imp.ty {
                        funcs.push(t);
                        let (p, r) = &types[t as usize];
                        out.push(format!("I {} {} {p} {r}", hex(imp.module), hex(imp.name)));
                    }
                }
            }
            wasmparser::Payload::FunctionSection(s) => {
                for t in s {
                    funcs.push(t?);
                }
            }
            wasmparser::Payload::ExportSection(s) => {
                for e in s {
                    let e = e?;
                    match e.kind {
                        wasmparser::ExternalKind::Func => {
                            let (p, r) = &types[funcs[e.index as usize] as usize];
                            out.push(format!("E {} {p} {r}", hex(e.name)));
                        }
                        wasmparser::ExternalKind::Memory => out.push(format!("E {} memory -", hex(e.name))),
                        _ => {}
                    }
                }
            }
            _ => {}
        }
    }
    Ok(out)
}

fn jlist(v: &[String]) -> String {
    let mut o = String::from("[");
    for (i, s) in v.iter().enumerate() {
        if i > 0 {
            o.push(',');
        }
        o.push_str(&jstr(s));
    }
    o.push(']');
    o
}

fn dummy(input: &str, world: &str) -> String {
    let mut parts = Vec::new();
    for (tag, abi) in [("sync", LiftLowerAbi::Sync), ("async", LiftLowerAbi::AsyncCallback)] {
        let r = std::panic::catch_unwind(|| -> anyhow::Result<Vec<String>> {
            let (resolve, w) = load(input, world)?;
            let bytes = wit_component::dummy_module(&resolve, w, Legacy(abi));
            module_decls(&bytes)
        });
        let v = match r {
            Ok(Ok(v)) => jlist(&v),
            Ok(Err(e)) => format!("{{\"err\":{}}}", jstr(&format!("{e:#}"))),
            Err(e) => format!("{{\"panic\":{}}}", jstr(&panic_msg(e))),
        };
        parts.push(format!("{}:{}", jstr(tag), v));
    }
    format!("{{{}}}", parts.join(","))
}

pub fn handle(line: &str) -> String {
    let toks: Vec<&str> = line.split(' ').filter(|t| !t.is_empty()).collect();
    if toks.len() != 4 {
        return format!("{{\"status\":\"bad-request\",\"msg\":{}}}", jstr("expected: <backend> <variant> <input> <world|->"));
    }
    let (backend, variant, input, world) = (toks[0], toks[1], toks[2], toks[3]);
    // the pristine world (generate() below works on its own copy)
    let (resolve, wid) = match load(input, world) {
        Ok(x) => x,
        Err(e) => return format!("{{\"status\":\"bad-request\",\"msg\":{}}}", jstr(&format!("wit: {e:#}"))),
    };
    let d = std::panic::catch_unwind(std::panic::AssertUnwindSafe(|| describe(&resolve, wid, backend, variant)));
    let (desc, wp, sites) = match d {
        Ok(x) => x,
        Err(e) => return format!("{{\"status\":\"bad-request\",\"msg\":{}}}", jstr(&format!("describe panicked: {}", panic_msg(e)))),
    };
    let (status, msg, files) = match run(backend, variant, input, world) {
        Err(e) => return format!("{{\"status\":\"bad-request\",\"msg\":{}}}", jstr(&e)),
        Ok(Outcome::Ok(files)) => {
            let mut o = String::from("[");
            for (i, (n, b)) in files.iter().enumerate() {
                if i > 0 {
                    o.push(',');
                }
                write!(o, "[{},{}]", jstr(n), jstr(&String::from_utf8_lossy(b))).unwrap();
            }
            o.push(']');
            ("ok", String::new(), o)
        }
        Ok(Outcome::Err(e)) => ("err", e, "[]".to_string()),
        Ok(Outcome::Panic(e)) => ("panic", e, "[]".to_string()),
    };
    format!(
        "{{\"status\":{},\"msg\":{},\"world\":{},\"files\":{},\"desc\":{},\"wp\":{},\"sites\":{},\"dummy\":{}}}",
        jstr(status),
        jstr(&msg),
        jstr(&resolve.worlds[wid].name),
        files,
        jstr(&desc),
        jmap(&wp),
        jmap(&sites),
        dummy(input, world)
    )
}
