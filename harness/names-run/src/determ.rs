//! Engine `determ` (C15): run one backend × option variant on one WIT input and print a
//! fingerprint of EVERY output file (name, length, 128-bit FNV-1a of the bytes) in `Files`
//! iteration order.  The check starts k separate OS processes of this engine (std's
//! `RandomState` is seeded per process; the check also varies environment size / ASLR) on the
//! same request list and diffs the answers line by line.
//!
//! Request: `<backend> <variant> <input> <world|->`          → `ok <hexname>:<len>:<hash>:<hash of the sorted lines> …`
//!            (equal sorted-lines hashes with different byte hashes = the same lines in another order)
//!                                                            | `err <hex msg>` | `panic <hex msg>` | `bad-request <why>`
//!          `dump <backend> <variant> <input> <world|-> <hexname>` → `file <hex content>` (witness of a diff)
use crate::gen::*;

fn fnv(bytes: &[u8], mut h: u64) -> u64 {
    for b in bytes {
        h ^= *b as u64;
        h = h.wrapping_mul(0x100000001b3);
    }
    h
}

pub fn handle(line: &str) -> String {
    let toks: Vec<&str> = line.split(' ').filter(|t| !t.is_empty()).collect();
    let (dump, toks) = if toks.first() == Some(&"dump") { (true, &toks[1..]) } else { (false, &toks[..]) };
    if toks.len() != if dump { 5 } else { 4 } {
        return "bad-request arity".into();
    }
    match run(toks[0], toks[1], toks[2], toks[3]) {
        Err(e) => format!("bad-request {}", hex(&e)),
        Ok(Outcome::Err(e)) => format!("err {}", hex(&e)),
        Ok(Outcome::Panic(e)) => format!("panic {}", hex(&e)),
        Ok(Outcome::Ok(files)) => {
            if dump {
                let want = unhex(toks[4]).unwrap_or_default();
                for (n, b) in files.iter() {
                    if n == want {
                        let h: String = b.iter().map(|x| format!("{x:02x}")).collect();
                        return format!("file {}", if h.is_empty() { "-".into() } else { h });
                    }
                }
                return "file-missing".into();
            }
            let mut o = String::from("ok");
            for (n, b) in files.iter() {
                let mut lines: Vec<&[u8]> = b.split(|c| *c == b'\n').collect();
                lines.sort();
                let mut hs = 0xcbf29ce484222325u64;
                for l in &lines {
                    hs = fnv(l, hs);
                    hs = fnv(b"\n", hs);
                }
                o.push_str(&format!(
                    " {}:{}:{:016x}{:016x}:{:016x}",
                    hex(n),
                    b.len(),
                    fnv(b, 0xcbf29ce484222325),
                    fnv(b, 0x84222325cbf29ce4),
                    hs
                ));
            }
            o
        }
    }
}
