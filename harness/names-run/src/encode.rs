//! Engine `encode` (C13, ORACLE 3): build a synthetic core module that declares exactly the
//! imports/exports extracted from a backend's generated text (+ memory, + `cabi_realloc` when the
//! backend did not declare one), embed the `component-type` section of the world
//! (`wit_component::metadata::encode` via `embed_component_metadata`) and ask
//! `ComponentEncoder::default().module(..).validate(true).encode()` whether the component model
//! accepts this module as an implementation of the world.
//!
//! Request: `<input> <world|-> <decl>*`   decl = `I:<hexmod>:<hexname>:<params>:<results>`
//!                                              | `E:<hexname>:<params>:<results>`     (types: i32,i64,f32,f64 or `-`)
//! Answer:  `ok <bytes>` | `err <hex message>` | `panic <hex message>` | `bad-request <why>`
//!
//! Request: `ignored <input> <world|-> <decl>*` → `ok <hexname>*`: the declared function exports that the
//! encoded component never references (no `alias core export … "<name>"` in the component), i.e. the
//! exports the encoder silently ignores.
use crate::gen::*;
use wasm_encoder::*;

fn tys(s: &str) -> Option<Vec<ValType>> {
    if s == "-" {
        return Some(vec![]);
    }
    s.split(',')
        .map(|t| match t {
            "i32" => Some(ValType::I32),
            "i64" => Some(ValType::I64),
            "f32" => Some(ValType::F32),
            "f64" => Some(ValType::F64),
            _ => None,
        })
        .collect()
}

pub fn build_module(decls: &[&str]) -> Result<Vec<u8>, String> {
    let mut types = TypeSection::new();
    let mut imports = ImportSection::new();
    let mut funcs = FunctionSection::new();
    let mut exports = ExportSection::new();
    let mut code = CodeSection::new();
    let mut nty = 0u32;
    let mut nfunc = 0u32;
    let mut have_realloc = false;
    let mut exps: Vec<(String, u32)> = Vec::new();
    let mut bodies = 0;
    // imports first (function index space)
    for d in decls.iter().filter(|d| d.starts_with("I:")) {
        let p: Vec<&str> = d.split(':').collect();
        if p.len() != 5 {
            return Err(format!("bad decl {d}"));
        }
        let (m, n) = (unhex(p[1]).ok_or("hex")?, unhex(p[2]).ok_or("hex")?);
        types.ty().function(tys(p[3]).ok_or("type")?, tys(p[4]).ok_or("type")?);
        imports.import(&m, &n, EntityType::Function(nty));
        nty += 1;
        nfunc += 1;
    }
    for d in decls.iter().filter(|d| d.starts_with("E:")) {
        let p: Vec<&str> = d.split(':').collect();
        if p.len() != 4 {
            return Err(format!("bad decl {d}"));
        }
        let n = unhex(p[1]).ok_or("hex")?;
        if n == "cabi_realloc" {
            have_realloc = true;
        }
        types.ty().function(tys(p[2]).ok_or("type")?, tys(p[3]).ok_or("type")?);
        funcs.function(nty);
        exps.push((n, nfunc));
        nty += 1;
        nfunc += 1;
        bodies += 1;
    }
    if !have_realloc {
        types.ty().function([ValType::I32; 4], [ValType::I32]);
        funcs.function(nty);
        exps.push(("cabi_realloc".into(), nfunc));
        bodies += 1;
    }
    for _ in 0..bodies {
        let mut f = Function::new([]);
        f.instruction(&Instruction::Unreachable);
        f.instruction(&Instruction::End);
        code.function(&f);
    }
    let mut mem = MemorySection::new();
    mem.memory(MemoryType { minimum: 1, maximum: None, memory64: false, shared: false, page_size_log2: None });
    for (n, i) in &exps {
        exports.export(n, ExportKind::Func, *i);
    }
    exports.export("memory", ExportKind::Memory, 0);
    let mut module = Module::new();
    module.section(&types);
    module.section(&imports);
    module.section(&funcs);
    module.section(&mem);
    module.section(&exports);
    module.section(&code);
    Ok(module.finish())
}

fn encode(resolve: &wit_parser::Resolve, world: wit_parser::WorldId, decls: &[&str]) -> Result<Vec<u8>, String> {
    let mut bytes = build_module(decls)?;
    let r = std::panic::catch_unwind(std::panic::AssertUnwindSafe(|| -> anyhow::Result<Vec<u8>> {
        wit_component::embed_component_metadata(&mut bytes, resolve, world, wit_component::StringEncoding::UTF8)?;
        wit_component::ComponentEncoder::default().module(&bytes)?.validate(true).encode()
    }));
    match r {
        Ok(Ok(c)) => Ok(c),
        Ok(Err(e)) => Err(format!("{e:#}")),
        Err(e) => Err(panic_msg(e)),
    }
}

/// names of the core exports the component actually uses (`alias core export <instance> "<name>"`)
fn used_core_exports(component: &[u8]) -> anyhow::Result<std::collections::BTreeSet<String>> {
    let mut used = std::collections::BTreeSet::new();
    for payload in wasmparser::Parser::new(0).parse_all(component) {
        match payload? {
            wasmparser::Payload::ComponentAliasSection(s) => {
                for a in s {
                    if let wasmparser::ComponentAlias::CoreInstanceExport { name, .. } = a? {
                        used.insert(name.to_string());
                    }
                }
            }
            // nested modules / components are skipped by `parse_all` only if we do not descend:
            wasmparser::Payload::ModuleSection { unchecked_range, .. } => {
                let _ = unchecked_range;
            }
            _ => {}
        }
    }
    Ok(used)
}

fn ignored(toks: &[&str]) -> String {
    if toks.len() < 2 {
        return "bad-request arity".into();
    }
    let (resolve, world) = match load(toks[0], toks[1]) {
        Ok(x) => x,
        Err(e) => return format!("bad-request {}", hex(&format!("{e:#}"))),
    };
    let decls = &toks[2..];
    let full = match encode(&resolve, world, decls) {
        Ok(c) => c,
        Err(e) => return format!("err {}", hex(&e)),
    };
    let used = match used_core_exports(&full) {
        Ok(u) => u,
        Err(e) => return format!("err {}", hex(&format!("{e:#}"))),
    };
    let mut out = String::from("ok");
    for d in decls.iter() {
        if !d.starts_with("E:") {
            continue;
        }
        let h = d.split(':').nth(1).unwrap();
        let name = unhex(h).unwrap_or_default();
        if !used.contains(&name) {
            out.push(' ');
            out.push_str(h);
        }
    }
    out
}

pub fn handle(line: &str) -> String {
    let toks: Vec<&str> = line.split(' ').filter(|t| !t.is_empty()).collect();
    if toks.first() == Some(&"ignored") {
        return ignored(&toks[1..]);
    }
    if toks.len() < 2 {
        return "bad-request arity".into();
    }
    let (resolve, world) = match load(toks[0], toks[1]) {
        Ok(x) => x,
        Err(e) => return format!("bad-request {}", hex(&format!("{e:#}"))),
    };
    let mut bytes = match build_module(&toks[2..]) {
        Ok(b) => b,
        Err(e) => return format!("bad-request {e}"),
    };
    let r = std::panic::catch_unwind(std::panic::AssertUnwindSafe(|| -> anyhow::Result<usize> {
        wit_component::embed_component_metadata(&mut bytes, &resolve, world, wit_component::StringEncoding::UTF8)?;
        let c = wit_component::ComponentEncoder::default().module(&bytes)?.validate(true).encode()?;
        Ok(c.len())
    }));
    match r {
        Ok(Ok(n)) => format!("ok {n}"),
        Ok(Err(e)) => format!("err {}", hex(&format!("{e:#}"))),
        Err(e) => format!("panic {}", hex(&panic_msg(e))),
    }
}
