//! Engines `rustgen` (C09) and `cppgen` (C31): run the real Rust / C++ generator (public `Opts`,
//! `build()`, `WorldGenerator::generate`) on a WIT package given as text, with an option string,
//! and return every generated file.
//!
//! Request:  `<opts> <hex wit text | @hex path of a WIT file or directory> <world name | ->`
//!   rust opts (comma separated, `-` = defaults + generate_all):
//!     own=owning|borrowing|borrowing-dup   std   merge   stubs   raw   map=<hex path>   async
//!   cpp opts (comma separated, `-` = defaults):
//!     own=owning|borrowing   sym   split
//! Answer:   `ok <hex file name>:<hex content> …` | `err <hex message>` | `panic <hex message>`
use crate::util::*;
use std::panic::{catch_unwind, AssertUnwindSafe};
use wit_bindgen_core::{Files, WorldGenerator};
use wit_parser::Resolve;

fn rust_generator(opts: &str) -> Option<Box<dyn WorldGenerator>> {
    let mut o = wit_bindgen_rust::Opts::default();
    o.generate_all = true;
    for t in opts.split(',').filter(|t| !t.is_empty() && *t != "-") {
        match t {
            "own=owning" => o.ownership = wit_bindgen_rust::Ownership::Owning,
            "own=borrowing" => {
                o.ownership = wit_bindgen_rust::Ownership::Borrowing { duplicate_if_necessary: false }
            }
            "own=borrowing-dup" => {
                o.ownership = wit_bindgen_rust::Ownership::Borrowing { duplicate_if_necessary: true }
            }
            "std" => o.std_feature = true,
            "merge" => o.merge_structurally_equal_types = Some(Some(true)),
            "stubs" => o.stubs = true,
            "raw" => o.raw_strings = true,
            "async" => {
                o.async_ = wit_bindgen_core::AsyncFilterSet::all(true);
            }
            _ if t.starts_with("map=") => o.map_type = Some(unhex(&t[4..])?),
            _ => return None,
        }
    }
    Some(Box::new(o.build()))
}

fn cpp_generator(opts: &str) -> Option<Box<dyn WorldGenerator>> {
    let mut o = wit_bindgen_cpp::Opts::default();
    for t in opts.split(',').filter(|t| !t.is_empty() && *t != "-") {
        match t {
            "own=owning" => o.ownership = wit_bindgen_cpp::Ownership::Owning,
            "own=borrowing" => o.ownership = wit_bindgen_cpp::Ownership::CoarseBorrowing,
            "sym" => o.api_style = wit_bindgen_cpp::APIStyle::Symmetric,
            "split" => o.split_interfaces = true,
            _ => return None,
        }
    }
    Some(o.build(None))
}

fn run(mut g: Box<dyn WorldGenerator>, wit: &str, path: Option<&str>, world_name: Option<&str>) -> String {
    let r = catch_unwind(AssertUnwindSafe(|| -> anyhow::Result<Files> {
        let mut resolve = Resolve::default();
        let pkg = match path {
            Some(p) => resolve.push_path(p)?.0,
            None => resolve.push_str("probe.wit", wit)?,
        };
        let world = resolve.select_world(&[pkg], world_name)?;
        let mut files = Files::default();
        g.generate(&mut resolve, world, &mut files)?;
        Ok(files)
    }));
    match r {
        Ok(Ok(files)) => {
            let mut out = String::from("ok");
            for (name, bytes) in files.iter() {
                out.push(' ');
                out.push_str(&hex(name));
                out.push(':');
                out.push_str(&hex(&String::from_utf8_lossy(bytes)));
            }
            out
        }
        Ok(Err(e)) => format!("err {}", hex(&format!("{e:#}"))),
        Err(e) => format!("panic {}", hex(&panic_msg(e))),
    }
}

fn handle(line: &str, mk: fn(&str) -> Option<Box<dyn WorldGenerator>>) -> String {
    let toks: Vec<&str> = line.split(' ').collect();
    if toks.len() != 3 {
        return "bad-request expected: <opts> <hex wit> <world|->".into();
    }
    let world_name = if toks[2] == "-" { None } else { Some(toks[2]) };
    let Some(g) = mk(toks[0]) else { return format!("bad-request unknown option in {}", toks[0]) };
    if let Some(p) = toks[1].strip_prefix('@') {
        let Some(p) = unhex(p) else { return "bad-request path not hex".into() };
        return run(g, "", Some(&p), world_name);
    }
    let Some(wit) = unhex(toks[1]) else { return "bad-request wit not hex".into() };
    run(g, &wit, None, world_name)
}

pub fn handle_rust(line: &str) -> String {
    handle(line, rust_generator)
}

pub fn handle_cpp(line: &str) -> String {
    handle(line, cpp_generator)
}
