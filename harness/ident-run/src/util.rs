pub fn hex(s: &str) -> String {
    hex_bytes(s.as_bytes())
}

pub fn hex_bytes(b: &[u8]) -> String {
    if b.is_empty() {
        return "-".into();
    }
    b.iter().map(|b| format!("{b:02x}")).collect()
}

pub fn unhex(h: &str) -> Option<String> {
    if h == "-" {
        return Some(String::new());
    }
    if h.len() % 2 != 0 {
        return None;
    }
    let mut v = Vec::new();
    for i in (0..h.len()).step_by(2) {
        v.push(u8::from_str_radix(h.get(i..i + 2)?, 16).ok()?);
    }
    String::from_utf8(v).ok()
}

pub fn panic_msg(e: Box<dyn std::any::Any + Send>) -> String {
    if let Some(s) = e.downcast_ref::<&str>() {
        s.to_string()
    } else if let Some(s) = e.downcast_ref::<String>() {
        s.clone()
    } else {
        "?".into()
    }
}
