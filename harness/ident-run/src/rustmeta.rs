//! Engine `rustmeta` (C09, "exactly that world"): the component-type metadata the Rust generator must embed,
//! computed independently with the same public encoder call (`wit_component::metadata::encode`, UTF-8,
//! producers = processed-by wit-bindgen-rust <version>).
//! Request: `<hex wit text | @hex path> <world | -> <version>`   (version = the one printed in the generated link_section name)
//! Answer:  `ok <hex bytes>` | `err <hex message>`
use crate::util::*;
use wit_parser::Resolve;

pub fn handle(line: &str) -> String {
    let toks: Vec<&str> = line.split(' ').collect();
    if toks.len() != 3 {
        return "bad-request".into();
    }
    let world_name = if toks[1] == "-" { None } else { Some(toks[1]) };
    let mut resolve = Resolve::default();
    let pkg = if let Some(p) = toks[0].strip_prefix('@') {
        let Some(p) = unhex(p) else { return "bad-request".into() };
        resolve.push_path(&p).map(|(id, _)| id)
    } else {
        let Some(wit) = unhex(toks[0]) else { return "bad-request".into() };
        resolve.push_str("probe.wit", &wit)
    };
    let r = pkg.and_then(|pkg| resolve.select_world(&[pkg], world_name)).and_then(|world| {
        // `WorldGenerator::generate` rewrites the `Resolve` before the backend sees it; the metadata is encoded
        // from the rewritten one (same public calls as crates/core/src/lib.rs)
        use wit_bindgen_core::WorldGenerator;
        if wit_bindgen_rust::Opts::default().build().uses_nominal_type_ids() {
            resolve.generate_nominal_type_ids(world);
        }
        let mut producers = wasm_metadata::Producers::empty();
        producers.add("processed-by", "wit-bindgen-rust", toks[2]);
        wit_component::metadata::encode(&resolve, world, wit_component::StringEncoding::UTF8, Some(&producers))
    });
    match r {
        Ok(bytes) => format!("ok {}", hex_bytes(&bytes)),
        Err(e) => format!("err {}", hex(&format!("{e:#}"))),
    }
}
