//! Line server for C09 / C31 / C32 (builder-ident).
//! usage: ident-run <engine>    (requests on stdin, one answer line per request)
//! Strings travel hex-encoded (UTF-8), empty string = `-` (same as lean/Drivers/Util.lean).
//! Engines:
//!   witpkg   (C32)  `<hex wit text>` -> `ok <hex of wasm bytes>` : wasm-encoded WIT package
//!   witvalid (C09/C31) `<hex wit text>` -> `valid` | `invalid <hex msg>` : component-model validity of the package
//!   rustid   (C09)  see rustid.rs
//!   scopes   (C09/C31) see scopes.rs
//!   rustmeta (C09)  see rustmeta.rs
//!   rustgen  (C09)  see gen.rs
//!   cppgen   (C31)  see gen.rs
use std::io::{BufRead, Write};

mod gen;
mod rustid;
mod rustmeta;
mod scopes;
mod util;
mod witpkg;

fn main() {
    let engine = std::env::args().nth(1).expect("engine");
    let f: fn(&str) -> String = match engine.as_str() {
        "witpkg" => witpkg::handle,
        "witvalid" => witpkg::handle_valid,
        "rustid" => rustid::handle,
        "rustmeta" => rustmeta::handle,
        "scopes" => scopes::handle,
        "rustgen" => gen::handle_rust,
        "cppgen" => gen::handle_cpp,
        other => panic!("unknown engine {other}"),
    };
    std::panic::set_hook(Box::new(|_| {}));
    let stdin = std::io::stdin();
    let stdout = std::io::stdout();
    let mut out = std::io::BufWriter::new(stdout.lock());
    for line in stdin.lock().lines() {
        let line = line.unwrap();
        let ans = match std::panic::catch_unwind(|| f(&line)) {
            Ok(a) => a,
            Err(_) => "panic".to_string(),
        };
        writeln!(out, "{ans}").unwrap();
    }
    out.flush().unwrap();
}
