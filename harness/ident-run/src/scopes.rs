//! Engine `scopes` (C09/C31): parse a WIT package with the real wit-parser and list, per naming scope,
//! the names the generators turn into identifiers (so that the checks need no WIT parser of their own).
//! Request: `<hex wit text | @hex path> <world name | ->`
//! Answer:  `ok <scope> <scope> …`   scope = `<kind>|<conv>|<hex owner>|<hex name>,<hex name>…`
//!   kinds: params (of one function) · fields (record) · cases (variant/enum) · flags · types (of one interface/world)
//!          funcs (freestanding functions of one interface / world side) · methods (of one resource)
//!          ifaces (interfaces a world imports resp. exports) · pkgns · pkgname · world
//!   conv:  snake | camel | shouty — which conversion the Rust/C++ generators apply in that position
//!   owner: dotted path, prefixed `import:` / `export:` / `type:` where it matters
//!        | `err <hex message>`
use crate::util::*;
use wit_parser::*;

fn scope(out: &mut Vec<String>, kind: &str, conv: &str, owner: &str, names: &[String]) {
    if names.is_empty() {
        return;
    }
    out.push(format!(
        "{kind}|{conv}|{}|{}",
        hex(owner),
        names.iter().map(|n| hex(n)).collect::<Vec<_>>().join(",")
    ));
}

fn func_scopes(out: &mut Vec<String>, owner: &str, f: &Function) {
    let names: Vec<String> = f.params.iter().map(|p| p.name.clone()).collect();
    scope(out, "params", "snake", &format!("{owner}.{}", f.name), &names);
}

fn type_scopes(out: &mut Vec<String>, resolve: &Resolve, owner: &str, name: &str, id: TypeId) {
    let ty = &resolve.types[id];
    let o = format!("{owner}.{name}");
    match &ty.kind {
        TypeDefKind::Record(r) => {
            scope(out, "fields", "snake", &o, &r.fields.iter().map(|f| f.name.clone()).collect::<Vec<_>>())
        }
        TypeDefKind::Variant(v) => {
            scope(out, "cases", "camel", &o, &v.cases.iter().map(|c| c.name.clone()).collect::<Vec<_>>())
        }
        TypeDefKind::Enum(e) => {
            scope(out, "cases", "camel", &o, &e.cases.iter().map(|c| c.name.clone()).collect::<Vec<_>>())
        }
        TypeDefKind::Flags(f) => {
            scope(out, "flags", "shouty", &o, &f.flags.iter().map(|c| c.name.clone()).collect::<Vec<_>>())
        }
        _ => {}
    }
}

fn funcs_of<'a>(
    out: &mut Vec<String>,
    owner: &str,
    funcs: impl Iterator<Item = &'a Function>,
) {
    let mut free = Vec::new();
    let mut methods: std::collections::BTreeMap<String, Vec<String>> = Default::default();
    for f in funcs {
        func_scopes(out, owner, f);
        match &f.kind {
            FunctionKind::Freestanding | FunctionKind::AsyncFreestanding => free.push(f.name.clone()),
            _ => {
                // `[method]res.name`, `[static]res.name`, `[constructor]res`
                let item = f.item_name().to_string();
                let res = f.name.split(']').nth(1).unwrap_or("").split('.').next().unwrap_or("").to_string();
                if !matches!(f.kind, FunctionKind::Constructor(_)) {
                    methods.entry(res).or_default().push(item);
                }
            }
        }
    }
    scope(out, "funcs", "snake", owner, &free);
    for (res, ms) in methods {
        scope(out, "methods", "snake", &format!("{owner}.{res}"), &ms);
    }
}

fn iface_scopes(out: &mut Vec<String>, resolve: &Resolve, side: &str, id: InterfaceId, key: &str) {
    let iface = &resolve.interfaces[id];
    let owner = format!("{side}:{key}");
    let tnames: Vec<String> = iface.types.keys().cloned().collect();
    scope(out, "types", "camel", &owner, &tnames);
    for (n, t) in iface.types.iter() {
        type_scopes(out, resolve, &owner, n, *t);
    }
    funcs_of(out, &owner, iface.functions.values());
}

pub fn handle(line: &str) -> String {
    let toks: Vec<&str> = line.split(' ').collect();
    if toks.len() != 2 {
        return "bad-request".into();
    }
    let world_name = if toks[1] == "-" { None } else { Some(toks[1]) };
    let mut resolve = Resolve::default();
    let pkg = if let Some(p) = toks[0].strip_prefix('@') {
        let Some(p) = unhex(p) else { return "bad-request".into() };
        resolve.push_path(&p).map(|(id, _)| id)
    } else {
        let Some(wit) = unhex(toks[0]) else { return "bad-request".into() };
        resolve.push_str("probe.wit", &wit)
    };
    let pkg = match pkg {
        Ok(p) => p,
        Err(e) => return format!("err {}", hex(&format!("{e:#}"))),
    };
    let world = match resolve.select_world(&[pkg], world_name) {
        Ok(w) => w,
        Err(e) => return format!("err {}", hex(&format!("{e:#}"))),
    };
    let mut out = Vec::new();
    let w = &resolve.worlds[world];
    scope(&mut out, "world", "snake", "world", &[w.name.clone()]);
    let mut seen_pkgs = std::collections::BTreeSet::new();
    for (side, items) in [("import", &w.imports), ("export", &w.exports)] {
        let mut ifaces = Vec::new();
        let mut funcs = Vec::new();
        let mut types = Vec::new();
        for (key, item) in items.iter() {
            match item {
                WorldItem::Interface { id, .. } => {
                    let iface = &resolve.interfaces[*id];
                    let name = match key {
                        WorldKey::Name(n) => n.clone(),
                        WorldKey::Interface(_) => iface.name.clone().unwrap_or_default(),
                    };
                    if let Some(p) = iface.package {
                        if matches!(key, WorldKey::Interface(_)) {
                            seen_pkgs.insert(p);
                        }
                    }
                    ifaces.push(name.clone());
                    iface_scopes(&mut out, &resolve, side, *id, &resolve.name_world_key(key));
                }
                WorldItem::Function(f) => funcs.push(f),
                WorldItem::Type { id, .. } => {
                    if let Some(n) = &resolve.types[*id].name {
                        types.push((n.clone(), *id));
                    }
                }
            }
        }
        scope(&mut out, "ifaces", "snake", side, &ifaces);
        funcs_of(&mut out, &format!("{side}:$root"), funcs.into_iter());
        scope(&mut out, "types", "camel", &format!("{side}:$root"), &types.iter().map(|t| t.0.clone()).collect::<Vec<_>>());
        for (n, t) in types {
            type_scopes(&mut out, &resolve, &format!("{side}:$root"), &n, t);
        }
    }
    for p in seen_pkgs {
        let name = &resolve.packages[p].name;
        scope(&mut out, "pkgns", "snake", "package", &[name.namespace.clone()]);
        scope(&mut out, "pkgname", "snake", "package", &[name.name.clone()]);
    }
    format!("ok {}", out.join(" "))
}
