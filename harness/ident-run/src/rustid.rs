//! Engine `rustid` (C09/C31 model tie): the real identifier functions on one name.
//! Request: `<hex name>`
//! Answer:  `rust=<hex to_rust_ident> c=<hex to_c_ident> snake=<hex> camel=<hex> pascal=<hex> shouty=<hex> valid=<0|1>`   (valid = wit_parser::validate_id)
//!   rust  = wit_bindgen_rust::to_rust_ident (public)
//!   c     = wit_bindgen_c::to_c_ident       (public; the C++ backend imports exactly this function)
//!   snake/camel/pascal/shouty = heck 0.5 (the conversions the generators call on type / case names)
use crate::util::*;
use heck::{ToPascalCase, ToShoutySnakeCase, ToSnakeCase, ToUpperCamelCase};

pub fn handle(line: &str) -> String {
    let Some(name) = unhex(line.trim()) else { return "bad-request".into() };
    format!(
        "rust={} c={} snake={} camel={} pascal={} shouty={} valid={}",
        hex(&wit_bindgen_rust::to_rust_ident(&name)),
        hex(&wit_bindgen_c::to_c_ident(&name)),
        hex(&name.to_snake_case()),
        hex(&name.to_upper_camel_case()),
        hex(&name.to_pascal_case()),
        hex(&name.to_shouty_snake_case()),
        if wit_parser::validate_id(&name).is_ok() { 1 } else { 0 },
    )
}
