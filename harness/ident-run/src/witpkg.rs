//! Engine `witpkg` (C32): encode a WIT package given as text into the binary (wasm) encoding that
//! wit-parser accepts as a `deps/*.wasm` entry or as a top-level path.
//! Request: `<hex wit text>`     Answer: `ok <hex wasm bytes>` | `err <hex message>`
use crate::util::*;
use wit_parser::Resolve;

pub fn handle(line: &str) -> String {
    let Some(wit) = unhex(line.trim()) else { return "bad-request".into() };
    let mut resolve = Resolve::default();
    let r = resolve
        .push_str("pkg.wit", &wit)
        .and_then(|pkg| wit_component::encode(&resolve, pkg));
    match r {
        Ok(bytes) => format!("ok {}", hex_bytes(&bytes)),
        Err(e) => format!("err {}", hex(&format!("{e:#}"))),
    }
}

/// Engine `witvalid` (C09/C31): is the package a valid component-model WIT package, i.e. does its binary
/// encoding pass wasmparser's validator (all features on)?  This is the "valid world" domain of C09/C31:
/// wit-parser alone accepts names that differ only in letter case inside one scope, the component
/// model does not.
/// Request: `<hex wit text>`   Answer: `valid` | `invalid <hex message>`
pub fn handle_valid(line: &str) -> String {
    let Some(wit) = unhex(line.trim()) else { return "bad-request".into() };
    let mut resolve = Resolve::default();
    let r = resolve
        .push_str("pkg.wit", &wit)
        .and_then(|pkg| wit_component::encode(&resolve, pkg))
        .and_then(|bytes| {
            wasmparser::Validator::new_with_features(wasmparser::WasmFeatures::all())
                .validate_all(&bytes)
                .map(|_| ())
                .map_err(|e| anyhow::anyhow!("{e}"))
        });
    match r {
        Ok(()) => "valid".into(),
        Err(e) => format!("invalid {}", hex(&format!("{e:#}"))),
    }
}
