//! Engine `witpkg` (C32): encode a WIT package given as text into the binary (wasm) encoding that
//! wit-parser accepts as a `deps/*.wasm` entry or as a top-level path.
//! Request: `<hex wit text>`     Answer: `ok <hex wasm bytes>` | `err <hex message>`
use crate::util::*;
use wit_parser::Resolve;

pub fn handle(line: &str) -> String {
    let Some(wit) = unhex(line.trim()) else { return "bad-request".into() };
    let mut resolve = Resolve::default();
    let r = resolve
        .push_str("pkg.wit", &wit)
        .and_then(|pkg| wit_component::encode(&resolve, pkg));
    match r {
        Ok(bytes) => format!("ok {}", hex_bytes(&bytes)),
        Err(e) => format!("err {}", hex(&format!("{e:#}"))),
    }
}
