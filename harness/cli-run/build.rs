// The CLI source is taken from the repository the check is pointed at: /repo, or the copy named by
// VERIF_REPO (tools/mutcheck.sh: a scratch worktree with a seeded change).
fn main() {
    let root = std::env::var("VERIF_REPO").unwrap_or_else(|_| "/repo".to_string());
    println!("cargo:rustc-env=VERIF_REPO_ROOT={root}");
    println!("cargo:rerun-if-env-changed=VERIF_REPO");
    println!("cargo:rerun-if-changed={root}/src/bin/wit-bindgen.rs");
}
