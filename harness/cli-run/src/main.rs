//! C33: the real CLI. This crate root *is* `<repo>/src/bin/wit-bindgen.rs` (textually included, nothing
//! added), compiled against the repository's crates; `<repo>` = /repo unless VERIF_REPO says otherwise.
include!(concat!(env!("VERIF_REPO_ROOT"), "/src/bin/wit-bindgen.rs"));
