//! C27: drives `wit_bindgen_core::name_package_module` on `Resolve`s holding several packages.
//! Request:  `<mode> <pkg> <pkg> …`   `<pkg>` = `hex(ns):hex(name):hex(version)` (`~` = no version)
//!   mode `d`: packages are allocated directly in `Resolve::packages` (any strings; the
//!             version must parse as `semver::Version`)
//!   mode `w`: the packages are written as WIT source (`package ns:name@ver { interface i {} }`,
//!             one nested package block each
//!             below an unrelated root package `verif-c27:root`, one `push_str`), i.e. only what wit-parser accepts
//! Answer:   `hex(module) hex(module) …` in request order, or `err:<hex message>`.
use crate::util::*;
use wit_bindgen_core::name_package_module;
use wit_parser::{Package, PackageName, Resolve};

struct P {
    ns: String,
    name: String,
    ver: Option<String>,
}

fn parse(tok: &str) -> Option<P> {
    let mut it = tok.split(':');
    let ns = unhex(it.next()?)?;
    let name = unhex(it.next()?)?;
    let v = it.next()?;
    let ver = if v == "~" { None } else { Some(unhex(v)?) };
    Some(P { ns, name, ver })
}

pub fn handle(line: &str) -> String {
    let mut toks = line.split(' ').filter(|t| !t.is_empty());
    let Some(mode) = toks.next() else { return "bad-request".into() };
    let mut pkgs = Vec::new();
    for t in toks {
        match parse(t) {
            Some(p) => pkgs.push(p),
            None => return "bad-request".into(),
        }
    }
    let mut resolve = Resolve::default();
    let mut ids = Vec::new();
    match mode {
        "d" => {
            for p in &pkgs {
                let version = match &p.ver {
                    None => None,
                    Some(v) => match semver::Version::parse(v) {
                        Ok(v) => Some(v),
                        Err(e) => return format!("err:{}", hex(&format!("semver: {e}"))),
                    },
                };
                let name = PackageName {
                    namespace: p.ns.clone(),
                    name: p.name.clone(),
                    version,
                };
                let id = resolve.packages.alloc(Package {
                    name: name.clone(),
                    docs: Default::default(),
                    interfaces: Default::default(),
                    worlds: Default::default(),
                });
                resolve.package_names.insert(name, id);
                ids.push(id);
            }
        }
        "w" => {
            // an unrelated root package (other namespace) carries the nested package blocks
            let mut src = String::from("package verif-c27:root;\n");
            for p in &pkgs {
                let at = match &p.ver {
                    Some(v) => format!("@{v}"),
                    None => String::new(),
                };
                src.push_str(&format!("package {}:{}{} {{ interface i {{}} }}\n", p.ns, p.name, at));
            }
            if let Err(e) = resolve.push_str("c27.wit", &src) {
                return format!("err:{}", hex(&format!("{e:#}")));
            }
            for p in &pkgs {
                let found = resolve.packages.iter().find(|(_, q)| {
                    q.name.namespace == p.ns
                        && q.name.name == p.name
                        && q.name.version.as_ref().map(|v| v.to_string()) == p.ver
                });
                match found {
                    Some((id, _)) => ids.push(id),
                    None => return format!("err:{}", hex("package not found after push_str")),
                }
            }
        }
        _ => return "bad-request".into(),
    }
    ids.iter()
        .map(|id| hex(&name_package_module(&resolve, *id)))
        .collect::<Vec<_>>()
        .join(" ")
}
