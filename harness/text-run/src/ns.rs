//! C26: drives `wit_bindgen_core::Ns`. One history per line.
use crate::util::*;
use wit_bindgen_core::Ns;

pub fn handle(line: &str) -> String {
    let mut ns = Ns::default();
    let mut outs = Vec::new();
    for tok in line.split(' ').filter(|t| !t.is_empty()) {
        let (k, h) = match tok.split_once(':') {
            Some(x) => x,
            None => return "bad-op".into(),
        };
        let Some(name) = unhex(h) else { return "bad-op".into() };
        match k {
            "i" => outs.push(match ns.insert(&name) {
                Ok(()) => "ok".to_string(),
                Err(_) => "conflict".to_string(),
            }),
            "t" => outs.push(format!("n:{}", hex(&ns.tmp(&name)))),
            _ => return "bad-op".into(),
        }
    }
    outs.join(" ")
}
