//! Glue correspondence for `lean/Witverif/Text/Heck.lean`: the real `heck::ToSnakeCase`.
//! Request: `hex(string)`; answer: `hex(to_snake_case(string))`.
use crate::util::*;
use heck::ToSnakeCase;

pub fn handle(line: &str) -> String {
    match unhex(line.trim()) {
        Some(s) => hex(&s.to_snake_case()),
        None => "bad-request".into(),
    }
}
