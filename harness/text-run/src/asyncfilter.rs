//! C17: drives the real `wit_bindgen_core::AsyncFilterSet` through its public API
//! (`default`/`all`, `push`, `is_async`, `ensure_all_used`, `any_enabled`, `debug_opts`)
//! on functions of a `wit_parser::Resolve` built from WIT text.
//!
//! Request:  `<hex wit> <world | -> D <dir>* Q <op>*`
//!   <dir>  `s:<hex directive text>` | `A:+` / `A:-` (only first: start from `AsyncFilterSet::all(b)`)
//!   <op>   `q:<i|e>:<hex iface | ~>:<hex func name>`  is_async on that world function, own direction
//!          `x:<i|e>:…`  same function, `is_import` flag flipped
//!          `e` ensure_all_used   `a` any_enabled   `d` debug_opts   `p:<hex>` push
//! Answer:   `F <func>* R <out>*`
//!   <func> `<i|e>:<hex name_world_key | ~>:<hex func.name>:<kind 0-6>`  every function of the world,
//!          imports first, in world order
//!   <out>  `t`/`f` | `ok` | `err:<hex>` | `o:<hex>,<hex>…` | `u` | `nofunc`
use crate::util::*;
use wit_bindgen_core::AsyncFilterSet;
use wit_parser::{Function, FunctionKind, Resolve, WorldItem, WorldKey};

fn kind_code(k: &FunctionKind) -> u8 {
    match k {
        FunctionKind::Freestanding => 0,
        FunctionKind::Method(_) => 1,
        FunctionKind::Static(_) => 2,
        FunctionKind::Constructor(_) => 3,
        FunctionKind::AsyncFreestanding => 4,
        FunctionKind::AsyncMethod(_) => 5,
        FunctionKind::AsyncStatic(_) => 6,
    }
}

struct Entry<'a> {
    import: bool,
    key: Option<&'a WorldKey>,
    func: &'a Function,
}

pub fn handle(line: &str) -> String {
    let toks: Vec<&str> = line.split(' ').filter(|t| !t.is_empty()).collect();
    if toks.len() < 4 || toks[2] != "D" {
        return "bad-request".into();
    }
    let Some(wit) = unhex(toks[0]) else { return "bad-request wit".into() };
    let world_name = if toks[1] == "-" { None } else { Some(toks[1]) };
    let Some(qpos) = toks.iter().position(|t| *t == "Q") else { return "bad-request".into() };
    let mut resolve = Resolve::default();
    let pkg = match resolve.push_str("case.wit", &wit) {
        Ok(p) => p,
        Err(e) => return format!("bad-wit {}", hex(&format!("{e:#}"))),
    };
    let world = match resolve.select_world(&[pkg], world_name) {
        Ok(w) => w,
        Err(e) => return format!("bad-world {}", hex(&format!("{e:#}"))),
    };
    let w = &resolve.worlds[world];
    let mut entries = Vec::new();
    for (import, items) in [(true, &w.imports), (false, &w.exports)] {
        for (key, item) in items.iter() {
            match item {
                WorldItem::Function(f) => entries.push(Entry { import, key: None, func: f }),
                WorldItem::Interface { id, .. } => {
                    for (_, f) in resolve.interfaces[*id].functions.iter() {
                        entries.push(Entry { import, key: Some(key), func: f });
                    }
                }
                WorldItem::Type { .. } => {}
            }
        }
    }
    let mut ans = String::from("F");
    for e in &entries {
        let k = match e.key {
            Some(k) => hex(&resolve.name_world_key(k)),
            None => "~".to_string(),
        };
        ans.push_str(&format!(
            " {}:{}:{}:{}",
            if e.import { "i" } else { "e" },
            k,
            hex(&e.func.name),
            kind_code(&e.func.kind)
        ));
    }
    ans.push_str(" R");

    let mut set = AsyncFilterSet::default();
    for (n, t) in toks[3..qpos].iter().enumerate() {
        if n == 0 && (*t == "A:+" || *t == "A:-") {
            set = AsyncFilterSet::all(*t == "A:+");
        } else if let Some(h) = t.strip_prefix("s:") {
            let Some(d) = unhex(h) else { return "bad-request directive".into() };
            set.push(&d);
        } else {
            return "bad-request directive".into();
        }
    }
    for op in &toks[qpos + 1..] {
        let out = match *op {
            "e" => match set.ensure_all_used() {
                Ok(()) => "ok".to_string(),
                Err(e) => format!("err:{}", hex(&format!("{e:#}"))),
            },
            "a" => (if set.any_enabled() { "t" } else { "f" }).to_string(),
            "d" => format!("o:{}", set.debug_opts().map(|s| hex(&s)).collect::<Vec<_>>().join(",")),
            _ if op.starts_with("p:") => {
                let Some(d) = unhex(&op[2..]) else { return "bad-request push".into() };
                set.push(&d);
                "u".to_string()
            }
            _ if op.starts_with("q:") || op.starts_with("x:") => {
                let parts: Vec<&str> = op.split(':').collect();
                if parts.len() != 4 {
                    return "bad-request op".into();
                }
                let import = parts[1] == "i";
                let iface = if parts[2] == "~" { None } else { unhex(parts[2]) };
                let Some(name) = unhex(parts[3]) else { return "bad-request op".into() };
                let found = entries.iter().find(|e| {
                    e.import == import
                        && e.func.name == name
                        && e.key.map(|k| resolve.name_world_key(k)) == iface
                });
                match found {
                    None => "nofunc".to_string(),
                    Some(e) => {
                        let flag = if op.starts_with("x:") { !e.import } else { e.import };
                        if set.is_async(&resolve, e.key, e.func, flag) { "t" } else { "f" }.to_string()
                    }
                }
            }
            _ => return "bad-request op".into(),
        };
        ans.push(' ');
        ans.push_str(&out);
    }
    ans
}
