//! Glue correspondence for lean/Witverif/Text/RustStr.lean: the real `std` string functions.
//! request: `<fn> <hex s> [<hex p>]`; answer: hex / list of hex joined by `,` (`[]` = empty list) / 0|1
use crate::util::*;

fn list(v: Vec<String>) -> String {
    if v.is_empty() {
        "[]".into()
    } else {
        v.join(",")
    }
}

pub fn handle(line: &str) -> String {
    let t: Vec<&str> = line.split(' ').filter(|t| !t.is_empty()).collect();
    if t.len() < 2 {
        return "bad-op".into();
    }
    let Some(s) = unhex(t[1]) else { return "bad-op".into() };
    let p = t.get(2).and_then(|h| unhex(h));
    let b = |x: bool| if x { "1".to_string() } else { "0".to_string() };
    match t[0] {
        "lines" => list(s.lines().map(hex).collect()),
        "splitnl" => list(
            s.split_inclusive('\n')
                .map(|l| match l.strip_suffix('\n') {
                    Some(x) => format!("{}+", hex(x)),
                    None => hex(l),
                })
                .collect(),
        ),
        "trim" => hex(s.trim()),
        "trim_start" => hex(s.trim_start()),
        "trim_end" => hex(s.trim_end()),
        "starts_with" => match p {
            Some(p) => b(s.starts_with(p.as_str())),
            None => "bad-op".into(),
        },
        "ends_with" => match p {
            Some(p) => b(s.ends_with(p.as_str())),
            None => "bad-op".into(),
        },
        // char-pattern forms as used in source.rs: starts_with('}') / ends_with('{') / ends_with('\n')
        "starts_with_char" => match p.as_deref().and_then(|p| p.chars().next()) {
            Some(c) => b(s.starts_with(c)),
            None => "bad-op".into(),
        },
        "ends_with_char" => match p.as_deref().and_then(|p| p.chars().next()) {
            Some(c) => b(s.ends_with(c)),
            None => "bad-op".into(),
        },
        "white" => s.chars().map(|c| if c.is_whitespace() { '1' } else { '0' }).collect(),
        "control" => s.chars().map(|c| if c.is_control() { '1' } else { '0' }).collect(),
        "pop2" => {
            let mut s = s;
            s.pop();
            s.pop();
            hex(&s)
        }
        _ => "bad-op".into(),
    }
}
