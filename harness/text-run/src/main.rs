//! Line server driving the real text/decision utilities of wit-bindgen-core.
//! usage: text-run <engine>    (requests on stdin, one answer line per request)
//! Strings travel hex-encoded (UTF-8), empty string = `-` (same as lean/Drivers/Util.lean).
use std::io::{BufRead, Write};

mod util;
mod ns;
mod asyncfilter;
mod source;
mod ruststr;
mod pkgpath;
mod heck;

fn main() {
    let engine = std::env::args().nth(1).expect("engine");
    let f: fn(&str) -> String = match engine.as_str() {
        "ns" => ns::handle,
        "asyncfilter" => asyncfilter::handle,
        "source" => source::handle,
        "ruststr" => ruststr::handle,
        "pkgpath" => pkgpath::handle,
        "heck" => heck::handle,
        other => panic!("unknown engine {other}"),
    };
    let stdin = std::io::stdin();
    let stdout = std::io::stdout();
    let mut out = std::io::BufWriter::new(stdout.lock());
    for line in stdin.lock().lines() {
        let line = line.unwrap();
        let ans = match std::panic::catch_unwind(|| f(&line)) {
            Ok(a) => a,
            Err(_) => "panic".to_string(),
        };
        writeln!(out, "{ans}").unwrap();
    }
    out.flush().unwrap();
}
