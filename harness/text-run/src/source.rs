//! C25: drives `wit_bindgen_core::Source`. One history per line.
//! tokens: p:<hex> push_str | l:<hex> push_str_literal | w:<hex> uwrite!("{}") | W:<hex> uwriteln!("{}")
//!         i:<n> indent | d:<n> deindent | s:<n> set_indent | [ … ] build a sub-source and append_src it
//! answer: one token per top-level op: `<indent>:<hex s>` (+`:<old>` for set_indent, +`:<hex sub.s>:<sub indent>` for `]`),
//!         `P` (and stop) when the op panicked.  `indent` is probed with set_indent(0)/set_indent(old).
//!         For w/W the token is a `|`-joined list with one entry `<indent>:<hex s>:f<hex frag>` per
//!         `write_str` call that `std::fmt` made on the real `impl fmt::Write for Source` (`w0` if none):
//!         the check replays these as push_str requests on the model.
use crate::util::*;
use std::fmt::Write as _;
use std::panic::{catch_unwind, AssertUnwindSafe};
use wit_bindgen_core::{uwrite, uwriteln, Source};

/// Forwards to the real `<Source as fmt::Write>::write_str` and records an observation per call.
struct Tap<'a> {
    src: &'a mut Source,
    log: Vec<String>,
}

impl std::fmt::Write for Tap<'_> {
    fn write_str(&mut self, s: &str) -> std::fmt::Result {
        std::fmt::Write::write_str(self.src, s)?;
        let ind = probe(self.src);
        self.log.push(format!("{}:{}:f{}", ind, hex(self.src.as_str()), hex(s)));
        Ok(())
    }
}

fn probe(s: &mut Source) -> usize {
    let old = s.set_indent(0);
    s.set_indent(old);
    old
}

pub fn handle(line: &str) -> String {
    // expected panics (deindent below zero) must not write to stderr: the check merges the streams
    static QUIET: std::sync::Once = std::sync::Once::new();
    QUIET.call_once(|| std::panic::set_hook(Box::new(|_| {})));
    let mut stack: Vec<Source> = vec![Source::default()];
    let mut outs: Vec<String> = Vec::new();
    for tok in line.split(' ').filter(|t| !t.is_empty()) {
        let mut extra = String::new();
        let mut taplog: Option<Vec<String>> = None;
        let depth_before = stack.len();
        let r = catch_unwind(AssertUnwindSafe(|| -> Result<(), ()> {
            if tok == "[" {
                stack.push(Source::default());
                return Ok(());
            }
            if tok == "]" {
                if stack.len() < 2 {
                    return Err(());
                }
                let mut sub = stack.pop().unwrap();
                extra = format!(":{}:{}", hex(sub.as_str()), probe(&mut sub));
                stack.last_mut().unwrap().append_src(&sub);
                return Ok(());
            }
            let (k, h) = tok.split_once(':').ok_or(())?;
            let cur = stack.last_mut().unwrap();
            match k {
                "p" => cur.push_str(&unhex(h).ok_or(())?),
                "l" => cur.push_str_literal(&unhex(h).ok_or(())?),
                "w" | "W" => {
                    let text = unhex(h).ok_or(())?;
                    let mut tap = Tap { src: cur, log: Vec::new() };
                    if k == "w" {
                        uwrite!(tap, "{}", text)
                    } else {
                        uwriteln!(tap, "{}", text)
                    }
                    taplog = Some(tap.log);
                }
                "i" => cur.indent(h.parse().map_err(|_| ())?),
                "d" => cur.deindent(h.parse().map_err(|_| ())?),
                "s" => {
                    let old = cur.set_indent(h.parse().map_err(|_| ())?);
                    extra = format!(":{old}");
                }
                _ => return Err(()),
            }
            Ok(())
        }));
        match r {
            Ok(Ok(())) => {}
            Ok(Err(())) => return "bad-op".into(),
            Err(_) => {
                outs.push("P".into());
                return outs.join(" ");
            }
        }
        // report after every op executed at depth 0 (incl. the `]` that returns to depth 0)
        if stack.len() == 1 && !(tok == "[") && (depth_before == 1 || tok == "]") {
            if let Some(log) = taplog {
                outs.push(if log.is_empty() { "w0".to_string() } else { log.join("|") });
                continue;
            }
            let cur = stack.last_mut().unwrap();
            let ind = probe(cur);
            outs.push(format!("{}:{}{}", ind, hex(cur.as_str()), extra));
        }
    }
    if stack.len() != 1 {
        return "bad-op".into();
    }
    outs.join(" ")
}
