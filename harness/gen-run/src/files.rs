//! Engine `files` (C14, C04 backend half, reusable by others): run ONE backend's real generator
//! (public `Opts::default()` + `build()` + `WorldGenerator::generate`) on a WIT package given as
//! text and return every generated file.
//!
//! Request:  `<backend> <hex wit text> <world name | ->`
//!           backend = rust | c | cpp | csharp | go | moonbit | d
//! Answer:   `ok <hex file name>:<hex content> …`   (generation order)
//!           | `err <hex message>` | `panic <hex message>` | `bad-request <why>`
use crate::util::*;
use std::panic::{catch_unwind, AssertUnwindSafe};
use wit_bindgen_core::{Files, WorldGenerator};
use wit_parser::Resolve;

fn panic_msg(e: Box<dyn std::any::Any + Send>) -> String {
    if let Some(s) = e.downcast_ref::<&str>() {
        s.to_string()
    } else if let Some(s) = e.downcast_ref::<String>() {
        s.clone()
    } else {
        "?".into()
    }
}

fn generator(backend: &str) -> Option<Box<dyn WorldGenerator>> {
    Some(match backend {
        "rust" => {
            let mut o = wit_bindgen_rust::Opts::default();
            o.generate_all = true;
            Box::new(o.build())
        }
        "c" => wit_bindgen_c::Opts::default().build(),
        "cpp" => wit_bindgen_cpp::Opts::default().build(None),
        "csharp" => {
            let mut o = wit_bindgen_csharp::Opts::default();
            o.generate_stub = false;
            o.build()
        }
        "go" => wit_bindgen_go::Opts::default().build(),
        "moonbit" => wit_bindgen_moonbit::Opts::default().build(),
        "d" => wit_bindgen_d::Opts::default().build(None),
        _ => return None,
    })
}

pub fn handle(line: &str) -> String {
    let toks: Vec<&str> = line.split(' ').collect();
    if toks.len() != 3 {
        return "bad-request expected: <backend> <hex wit> <world|->".into();
    }
    let backend = toks[0];
    let Some(wit) = unhex(toks[1]) else { return "bad-request wit not hex".into() };
    let world_name = if toks[2] == "-" { None } else { Some(toks[2]) };
    let Some(mut g) = generator(backend) else { return format!("bad-request unknown backend {backend}") };
    let r = catch_unwind(AssertUnwindSafe(|| -> anyhow::Result<Files> {
        let mut resolve = Resolve::default();
        let pkg = resolve.push_str("probe.wit", &wit)?;
        let world = resolve.select_world(&[pkg], world_name)?;
        let mut files = Files::default();
        g.generate(&mut resolve, world, &mut files)?;
        Ok(files)
    }));
    match r {
        Ok(Ok(files)) => {
            let mut out = String::from("ok");
            for (name, bytes) in files.iter() {
                out.push(' ');
                out.push_str(&hex(name));
                out.push(':');
                out.push_str(&hex(&String::from_utf8_lossy(bytes)));
            }
            out
        }
        Ok(Err(e)) => format!("err {}", hex(&format!("{e:#}"))),
        Err(e) => format!("panic {}", hex(&panic_msg(e))),
    }
}
