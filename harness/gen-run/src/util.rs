pub fn hex(s: &str) -> String {
    if s.is_empty() {
        return "-".into();
    }
    s.bytes().map(|b| format!("{b:02x}")).collect()
}

pub fn unhex(h: &str) -> Option<String> {
    if h == "-" {
        return Some(String::new());
    }
    if h.len() % 2 != 0 {
        return None;
    }
    let mut v = Vec::new();
    for i in (0..h.len()).step_by(2) {
        v.push(u8::from_str_radix(h.get(i..i + 2)?, 16).ok()?);
    }
    String::from_utf8(v).ok()
}
