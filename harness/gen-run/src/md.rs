//! Engine `md` (C29): run the REAL Markdown generator (`wit_bindgen_markdown::Opts::default()
//! .build()` + `WorldGenerator::generate`) on a WIT package, and expose what the Lean model of
//! `crates/markdown/src/lib.rs` needs:
//!
//!   `gen <hex wit>`
//!       -> `ok <hex .md> <hex .html>\tW <abstract world tokens>\tEV <event tokens>`
//!          | `panic <hex message> <hex file:line>` | `err <hex>` | `bad-wit <hex>` | `bad-event <hex>`
//!       abstract world = what the generator reads of the `Resolve` (names, `name_world_key`s, docs,
//!       type trees with named types as references), in generation order; events = the generated
//!       `.md` re-parsed with `pulldown_cmark::Parser::new` (same crate version and options as
//!       `Markdown::finish`).
//!   `render <event tokens>`
//!       -> `ok <hex html>`      (`pulldown_cmark::html::push_html` on the given events)
//!
//! Token formats are documented next to `ev_token` / `world_tokens` (and mirrored by
//! lean/Drivers/MdLinks.lean).
use crate::util::*;
use pulldown_cmark::{CodeBlockKind, CowStr, Event, HeadingLevel, LinkType, Parser, Tag, TagEnd};
use std::cell::RefCell;
use std::panic::{catch_unwind, AssertUnwindSafe};
use wit_bindgen_core::Files;
use wit_parser::*;

thread_local! {
    pub static LAST_PANIC_LOC: RefCell<String> = RefCell::new(String::new());
}

/// Install (once) a panic hook that records `file:line` of the panic; stays silent on stderr.
pub fn install_hook() {
    static ONCE: std::sync::Once = std::sync::Once::new();
    ONCE.call_once(|| {
        std::panic::set_hook(Box::new(|info| {
            let loc = info
                .location()
                .map(|l| format!("{}:{}", l.file(), l.line()))
                .unwrap_or_else(|| "?".into());
            LAST_PANIC_LOC.with(|c| *c.borrow_mut() = loc);
        }));
    });
}

pub fn panic_msg(e: Box<dyn std::any::Any + Send>) -> String {
    if let Some(s) = e.downcast_ref::<&str>() {
        s.to_string()
    } else if let Some(s) = e.downcast_ref::<String>() {
        s.clone()
    } else {
        "?".into()
    }
}

fn oh(s: &Option<String>) -> String {
    match s {
        Some(s) => hex(s),
        None => "~".into(),
    }
}

// ------------------------------------------------------------------ abstract world

fn prim_name(t: &Type) -> Option<&'static str> {
    Some(match t {
        Type::Bool => "bool",
        Type::U8 => "u8",
        Type::S8 => "s8",
        Type::U16 => "u16",
        Type::S16 => "s16",
        Type::U32 => "u32",
        Type::S32 => "s32",
        Type::U64 => "u64",
        Type::S64 => "s64",
        Type::F32 => "f32",
        Type::F64 => "f64",
        Type::Char => "char",
        Type::String => "string",
        Type::ErrorContext => "error-context",
        Type::Id(_) => return None,
    })
}

/// Type tree: `p <hex>` primitive | `r <hex name>` named type (reference) | anonymous
/// constructors in prefix form.
fn ty_tokens(r: &Resolve, t: &Type, out: &mut Vec<String>) {
    if let Some(p) = prim_name(t) {
        out.push("p".into());
        out.push(hex(p));
        return;
    }
    let Type::Id(id) = t else { unreachable!() };
    let def = &r.types[*id];
    if let Some(n) = &def.name {
        out.push("r".into());
        out.push(hex(n));
        return;
    }
    match &def.kind {
        TypeDefKind::Type(t) => {
            // print_ty on an unnamed alias prints the target
            out.push("al".into());
            ty_tokens(r, t, out)
        }
        TypeDefKind::Tuple(t) => {
            out.push("tu".into());
            out.push(t.types.len().to_string());
            for t in &t.types {
                ty_tokens(r, t, out);
            }
        }
        TypeDefKind::Record(_)
        | TypeDefKind::Resource
        | TypeDefKind::Flags(_)
        | TypeDefKind::Enum(_)
        | TypeDefKind::Variant(_) => out.push("bad".into()),
        TypeDefKind::Option(t) => {
            out.push("op".into());
            ty_tokens(r, t, out)
        }
        TypeDefKind::Result(res) => match (&res.ok, &res.err) {
            (Some(a), Some(b)) => {
                out.push("r2".into());
                ty_tokens(r, a, out);
                ty_tokens(r, b, out)
            }
            (None, Some(b)) => {
                out.push("re".into());
                ty_tokens(r, b, out)
            }
            (Some(a), None) => {
                out.push("ro".into());
                ty_tokens(r, a, out)
            }
            (None, None) => out.push("r0".into()),
        },
        TypeDefKind::List(t) => {
            out.push("li".into());
            ty_tokens(r, t, out)
        }
        TypeDefKind::FixedLengthList(t, n) => {
            out.push("fl".into());
            out.push(n.to_string());
            ty_tokens(r, t, out)
        }
        TypeDefKind::Map(k, v) => {
            out.push("ma".into());
            ty_tokens(r, k, out);
            ty_tokens(r, v, out)
        }
        TypeDefKind::Future(t) => match t {
            Some(t) => {
                out.push("f1".into());
                ty_tokens(r, t, out)
            }
            None => out.push("f0".into()),
        },
        TypeDefKind::Stream(t) => match t {
            Some(t) => {
                out.push("s1".into());
                ty_tokens(r, t, out)
            }
            None => out.push("s0".into()),
        },
        TypeDefKind::Handle(Handle::Own(id)) => {
            out.push("ow".into());
            ty_tokens(r, &Type::Id(*id), out)
        }
        TypeDefKind::Handle(Handle::Borrow(id)) => {
            out.push("bo".into());
            ty_tokens(r, &Type::Id(*id), out)
        }
        TypeDefKind::Unknown => out.push("un".into()),
    }
}

fn opt_ty_tokens(r: &Resolve, t: &Option<Type>, out: &mut Vec<String>) {
    match t {
        Some(t) => ty_tokens(r, t, out),
        None => out.push("~".into()),
    }
}

/// Definition as seen by `define_type(name, id)`: `<hex name> <docs|~> <kind …>`
fn def_tokens(r: &Resolve, name: &str, id: TypeId, out: &mut Vec<String>) {
    let def = &r.types[id];
    out.push(hex(name));
    out.push(oh(&def.docs.contents));
    match &def.kind {
        TypeDefKind::Record(rec) => {
            out.push("record".into());
            out.push(rec.fields.len().to_string());
            for f in &rec.fields {
                out.push(hex(&f.name));
                ty_tokens(r, &f.ty, out);
                out.push(oh(&f.docs.contents));
            }
        }
        TypeDefKind::Resource => out.push("resource".into()),
        TypeDefKind::Flags(fl) => {
            out.push("flags".into());
            out.push(fl.flags.len().to_string());
            for f in &fl.flags {
                out.push(hex(&f.name));
                out.push(oh(&f.docs.contents));
            }
        }
        TypeDefKind::Tuple(t) => {
            out.push("tuple".into());
            out.push(t.types.len().to_string());
            for t in &t.types {
                ty_tokens(r, t, out);
            }
        }
        TypeDefKind::Variant(v) => {
            out.push("variant".into());
            out.push(v.cases.len().to_string());
            for c in &v.cases {
                out.push(hex(&c.name));
                opt_ty_tokens(r, &c.ty, out);
                out.push(oh(&c.docs.contents));
            }
        }
        TypeDefKind::Enum(e) => {
            out.push("enum".into());
            out.push(e.cases.len().to_string());
            for c in &e.cases {
                out.push(hex(&c.name));
                out.push(oh(&c.docs.contents));
            }
        }
        TypeDefKind::Option(t) => {
            out.push("option".into());
            ty_tokens(r, t, out)
        }
        TypeDefKind::Result(res) => {
            out.push("result".into());
            opt_ty_tokens(r, &res.ok, out);
            opt_ty_tokens(r, &res.err, out);
        }
        // type_list / type_map / type_fixed_length_list / type_future / type_stream
        // = type_alias(id, name, &Type::Id(id)): the printed type is the definition itself, by its
        // own `name` in the type table
        TypeDefKind::List(_)
        | TypeDefKind::Map(..)
        | TypeDefKind::FixedLengthList(..)
        | TypeDefKind::Future(_)
        | TypeDefKind::Stream(_) => {
            out.push("self".into());
            ty_tokens(r, &Type::Id(id), out)
        }
        TypeDefKind::Type(t) => {
            out.push("alias".into());
            ty_tokens(r, t, out)
        }
        TypeDefKind::Handle(_) => out.push("handle".into()),
        TypeDefKind::Unknown => out.push("unknown".into()),
    }
}

fn func_tokens(r: &Resolve, f: &Function, out: &mut Vec<String>) {
    out.push(hex(&f.name));
    out.push(oh(&f.docs.contents));
    out.push(f.params.len().to_string());
    for p in &f.params {
        out.push(hex(&p.name));
        ty_tokens(r, &p.ty, out);
    }
    opt_ty_tokens(r, &f.result, out);
}

fn iface_tokens(r: &Resolve, id: InterfaceId, out: &mut Vec<String>) {
    let i = &r.interfaces[id];
    out.push(oh(&i.docs.contents));
    out.push(i.types.len().to_string());
    for (name, id) in &i.types {
        def_tokens(r, name, *id, out);
    }
    out.push(i.functions.len().to_string());
    for (_, f) in &i.functions {
        func_tokens(r, f, out);
    }
}

fn items_tokens(
    r: &Resolve,
    items: &indexmap_like::Items,
    out: &mut Vec<String>,
) {
    out.push(items.len().to_string());
    for (key, item) in items.iter() {
        let kname = r.name_world_key(key);
        match item {
            WorldItem::Interface { id, .. } => {
                out.push("i".into());
                out.push(hex(&kname));
                iface_tokens(r, *id, out);
            }
            WorldItem::Function(f) => {
                out.push("f".into());
                out.push(hex(&kname));
                func_tokens(r, f, out);
            }
            WorldItem::Type { id, .. } => {
                out.push("t".into());
                out.push(hex(&kname));
                // define_type(name, id) with name = the world key
                let n = match key {
                    WorldKey::Name(n) => n.clone(),
                    WorldKey::Interface(_) => kname.clone(),
                };
                def_tokens(r, &n, *id, out);
            }
        }
    }
}

mod indexmap_like {
    pub type Items = wit_parser::IndexMap<wit_parser::WorldKey, wit_parser::WorldItem>;
}

/// `<hex name> <docs|~> <n imports> item* <n exports> item*`
fn world_tokens(r: &Resolve, w: WorldId) -> String {
    let world = &r.worlds[w];
    let mut out = Vec::new();
    out.push(hex(&world.name));
    out.push(oh(&world.docs.contents));
    items_tokens(r, &world.imports, &mut out);
    items_tokens(r, &world.exports, &mut out);
    out.join(" ")
}

// ------------------------------------------------------------------ events

fn lt_name(l: &LinkType) -> Option<&'static str> {
    Some(match l {
        LinkType::Inline => "in",
        LinkType::Reference => "rf",
        LinkType::ReferenceUnknown => "ru",
        LinkType::Collapsed => "co",
        LinkType::CollapsedUnknown => "cu",
        LinkType::Shortcut => "sh",
        LinkType::ShortcutUnknown => "su",
        LinkType::Autolink => "au",
        LinkType::Email => "em",
        LinkType::WikiLink { .. } => return None,
    })
}
fn lt_parse(s: &str) -> Option<LinkType> {
    Some(match s {
        "in" => LinkType::Inline,
        "rf" => LinkType::Reference,
        "ru" => LinkType::ReferenceUnknown,
        "co" => LinkType::Collapsed,
        "cu" => LinkType::CollapsedUnknown,
        "sh" => LinkType::Shortcut,
        "su" => LinkType::ShortcutUnknown,
        "au" => LinkType::Autolink,
        "em" => LinkType::Email,
        _ => return None,
    })
}
fn lvl(h: HeadingLevel) -> u8 {
    h as u8
}
fn lvl_parse(n: &str) -> Option<HeadingLevel> {
    Some(match n {
        "1" => HeadingLevel::H1,
        "2" => HeadingLevel::H2,
        "3" => HeadingLevel::H3,
        "4" => HeadingLevel::H4,
        "5" => HeadingLevel::H5,
        "6" => HeadingLevel::H6,
        _ => return None,
    })
}

/// One token per event, fields separated by `:`, strings hex:
///   `SL:<lt>:<dest>:<title>:<id>` Start(Link)   `EL` End(Link)
///   `C:<s>` Code   `T:<s>` Text   `H:<s>` Html   `IH:<s>` InlineHtml   `SB` `HB` `R`
///   `S:<tag…>` any other Start, `E:<tag…>` any other End (opaque to the model):
///      P | H<n> | BQ | CBI | CBF.<info> | HTML | L.~ | L.<start> | I | EM | ST | IMG.<lt>.<dest>.<title>.<id>
///      ends: P | H<n> | BQ | CB | HTML | L.o | L.u | I | EM | ST | IMG
fn ev_token(e: &Event) -> Option<String> {
    Some(match e {
        Event::Start(Tag::Link { link_type, dest_url, title, id }) => format!(
            "SL:{}:{}:{}:{}",
            lt_name(link_type)?,
            hex(dest_url),
            hex(title),
            hex(id)
        ),
        Event::End(TagEnd::Link) => "EL".into(),
        Event::Code(s) => format!("C:{}", hex(s)),
        Event::Text(s) => format!("T:{}", hex(s)),
        Event::Html(s) => format!("H:{}", hex(s)),
        Event::InlineHtml(s) => format!("IH:{}", hex(s)),
        Event::SoftBreak => "SB".into(),
        Event::HardBreak => "HB".into(),
        Event::Rule => "R".into(),
        Event::Start(t) => format!(
            "S:{}",
            match t {
                Tag::Paragraph => "P".to_string(),
                Tag::Heading { level, id: None, classes, attrs } if classes.is_empty() && attrs.is_empty() =>
                    format!("H{}", lvl(*level)),
                Tag::BlockQuote(None) => "BQ".into(),
                Tag::CodeBlock(CodeBlockKind::Indented) => "CBI".into(),
                Tag::CodeBlock(CodeBlockKind::Fenced(info)) => format!("CBF.{}", hex(info)),
                Tag::HtmlBlock => "HTML".into(),
                Tag::List(None) => "L.~".into(),
                Tag::List(Some(n)) => format!("L.{n}"),
                Tag::Item => "I".into(),
                Tag::Emphasis => "EM".into(),
                Tag::Strong => "ST".into(),
                Tag::Image { link_type, dest_url, title, id } => format!(
                    "IMG.{}.{}.{}.{}",
                    lt_name(link_type)?,
                    hex(dest_url),
                    hex(title),
                    hex(id)
                ),
                _ => return None,
            }
        ),
        Event::End(t) => format!(
            "E:{}",
            match t {
                TagEnd::Paragraph => "P".to_string(),
                TagEnd::Heading(l) => format!("H{}", lvl(*l)),
                TagEnd::BlockQuote(None) => "BQ".into(),
                TagEnd::CodeBlock => "CB".into(),
                TagEnd::HtmlBlock => "HTML".into(),
                TagEnd::List(true) => "L.o".into(),
                TagEnd::List(false) => "L.u".into(),
                TagEnd::Item => "I".into(),
                TagEnd::Emphasis => "EM".into(),
                TagEnd::Strong => "ST".into(),
                TagEnd::Image => "IMG".into(),
                _ => return None,
            }
        ),
        _ => return None,
    })
}

fn cow(h: &str) -> Option<CowStr<'static>> {
    Some(CowStr::from(unhex(h)?))
}

fn ev_parse(tok: &str) -> Option<Event<'static>> {
    let f: Vec<&str> = tok.split(':').collect();
    Some(match f[0] {
        "SL" if f.len() == 5 => Event::Start(Tag::Link {
            link_type: lt_parse(f[1])?,
            dest_url: cow(f[2])?,
            title: cow(f[3])?,
            id: cow(f[4])?,
        }),
        "EL" => Event::End(TagEnd::Link),
        "C" => Event::Code(cow(f.get(1)?)?),
        "T" => Event::Text(cow(f.get(1)?)?),
        "H" => Event::Html(cow(f.get(1)?)?),
        "IH" => Event::InlineHtml(cow(f.get(1)?)?),
        "SB" => Event::SoftBreak,
        "HB" => Event::HardBreak,
        "R" => Event::Rule,
        "S" => {
            let t = *f.get(1)?;
            let g: Vec<&str> = t.split('.').collect();
            Event::Start(match g[0] {
                "P" => Tag::Paragraph,
                "BQ" => Tag::BlockQuote(None),
                "CBI" => Tag::CodeBlock(CodeBlockKind::Indented),
                "CBF" => Tag::CodeBlock(CodeBlockKind::Fenced(cow(g.get(1)?)?)),
                "HTML" => Tag::HtmlBlock,
                "L" => {
                    let a = *g.get(1)?;
                    Tag::List(if a == "~" { None } else { Some(a.parse().ok()?) })
                }
                "I" => Tag::Item,
                "EM" => Tag::Emphasis,
                "ST" => Tag::Strong,
                "IMG" if g.len() == 5 => Tag::Image {
                    link_type: lt_parse(g[1])?,
                    dest_url: cow(g[2])?,
                    title: cow(g[3])?,
                    id: cow(g[4])?,
                },
                h if h.starts_with('H') => Tag::Heading {
                    level: lvl_parse(&h[1..])?,
                    id: None,
                    classes: vec![],
                    attrs: vec![],
                },
                _ => return None,
            })
        }
        "E" => {
            let t = *f.get(1)?;
            Event::End(match t {
                "P" => TagEnd::Paragraph,
                "BQ" => TagEnd::BlockQuote(None),
                "CB" => TagEnd::CodeBlock,
                "HTML" => TagEnd::HtmlBlock,
                "L.o" => TagEnd::List(true),
                "L.u" => TagEnd::List(false),
                "I" => TagEnd::Item,
                "EM" => TagEnd::Emphasis,
                "ST" => TagEnd::Strong,
                "IMG" => TagEnd::Image,
                h if h.starts_with('H') => TagEnd::Heading(lvl_parse(&h[1..])?),
                _ => return None,
            })
        }
        _ => return None,
    })
}

// ------------------------------------------------------------------ requests

fn gen(wit: &str) -> String {
    install_hook();
    let mut resolve = Resolve::default();
    let pkg = match resolve.push_str("case.wit", wit) {
        Ok(p) => p,
        Err(e) => return format!("bad-wit {}", hex(&format!("{e:#}"))),
    };
    let world = match resolve.select_world(&[pkg], None) {
        Ok(w) => w,
        Err(e) => return format!("bad-wit {}", hex(&format!("{e:#}"))),
    };
    let mut files = Files::default();
    let r = catch_unwind(AssertUnwindSafe(|| -> anyhow::Result<()> {
        let mut g = wit_bindgen_markdown::Opts::default().build();
        g.generate(&mut resolve, world, &mut files)
    }));
    // the abstract world is read after generation: `generate` first rewrites the resolve
    // (`generate_nominal_type_ids`), and that is what the generator saw
    let wtoks = world_tokens(&resolve, world);
    match r {
        Err(e) => {
            let loc = LAST_PANIC_LOC.with(|c| c.borrow().clone());
            format!("panic {} {}\tW {}", hex(&panic_msg(e)), hex(&loc), wtoks)
        }
        Ok(Err(e)) => format!("err {}", hex(&format!("{e:#}"))),
        Ok(Ok(())) => {
            let mut md = None;
            let mut html = None;
            for (name, bytes) in files.iter() {
                let text = String::from_utf8_lossy(bytes).to_string();
                if name.ends_with(".md") {
                    md = Some(text)
                } else if name.ends_with(".html") {
                    html = Some(text)
                }
            }
            let (Some(md), Some(html)) = (md, html) else { return "err -".into() };
            let mut evs = Vec::new();
            for e in Parser::new(&md) {
                match ev_token(&e) {
                    Some(t) => evs.push(t),
                    None => return format!("bad-event {}", hex(&format!("{e:?}"))),
                }
            }
            format!("ok {} {}\tW {}\tEV {}", hex(&md), hex(&html), wtoks, evs.join(" "))
        }
    }
}

fn render(toks: &[&str]) -> String {
    let mut evs = Vec::new();
    for t in toks {
        match ev_parse(t) {
            Some(e) => evs.push(e),
            None => return format!("bad-token {t}"),
        }
    }
    let mut out = String::new();
    pulldown_cmark::html::push_html(&mut out, evs.into_iter());
    format!("ok {}", hex(&out))
}

pub fn handle(line: &str) -> String {
    let toks: Vec<&str> = line.split(' ').filter(|t| !t.is_empty()).collect();
    match toks.first().copied() {
        Some("gen") if toks.len() == 2 => match unhex(toks[1]) {
            Some(w) => gen(&w),
            None => "bad-request wit".into(),
        },
        Some("render") => render(&toks[1..]),
        _ => "bad-request".into(),
    }
}
