//! Engine `backends` (C16, backend half): run ONE real generator (public `Opts` as the CLI /
//! crates/test variants build them, `build()`, `WorldGenerator::generate`) on a WIT package under
//! `catch_unwind` and report whether it produced files, returned an error, or panicked — with
//! the panic message and its source location.
//!
//! Request:  `<backend> <variant> <hex wit>`
//!   backend = rust | c | cpp | csharp | go | moonbit | d | markdown
//!   variant = default | (per backend) the option variants of crates/test/src/<lang>.rs:
//!       rust: borrowed, borrowed-duplicate, async, no-std, merge-equal, hashmap
//!       c: no-sig-flattening, autodrop, async        moonbit: async       go: async
//!       csharp: no-stub      cpp: (default only)      d: (default only)    markdown: (default only)
//! Answer:   `ok <n files> <total bytes>` | `err <hex message>` | `panic <hex message> <hex file:line>`
//!           | `bad-wit <hex message>` | `bad-request <why>`
use crate::md::{install_hook, panic_msg, LAST_PANIC_LOC};
use crate::util::*;
use std::panic::{catch_unwind, AssertUnwindSafe};
use wit_bindgen_core::{Files, WorldGenerator};
use wit_parser::Resolve;

pub fn generator(backend: &str, variant: &str) -> Option<Box<dyn WorldGenerator>> {
    Some(match backend {
        "rust" => {
            let mut o = wit_bindgen_rust::Opts::default();
            o.generate_all = true;
            o.stubs = true;
            match variant {
                "default" => {}
                "borrowed" => {
                    o.ownership = wit_bindgen_rust::Ownership::Borrowing { duplicate_if_necessary: false }
                }
                "borrowed-duplicate" => {
                    o.ownership = wit_bindgen_rust::Ownership::Borrowing { duplicate_if_necessary: true }
                }
                "async" => {
                    o.async_.push("all");
                }
                "no-std" => o.std_feature = true,
                "merge-equal" => o.merge_structurally_equal_types = Some(Some(true)),
                "hashmap" => o.map_type = Some("std::collections::HashMap".into()),
                _ => return None,
            }
            Box::new(o.build())
        }
        "c" => {
            let mut o = wit_bindgen_c::Opts::default();
            match variant {
                "default" => {}
                "no-sig-flattening" => o.no_sig_flattening = true,
                "autodrop" => o.autodrop_borrows = wit_bindgen_c::Enabled::Yes,
                "async" => {
                    o.async_.push("all");
                }
                _ => return None,
            }
            o.build()
        }
        "cpp" => match variant {
            "default" => wit_bindgen_cpp::Opts::default().build(None),
            _ => return None,
        },
        "csharp" => {
            let mut o = wit_bindgen_csharp::Opts::default();
            match variant {
                "default" => o.generate_stub = true,
                "no-stub" => o.generate_stub = false,
                _ => return None,
            }
            o.build()
        }
        "go" => {
            let mut o = wit_bindgen_go::Opts::default();
            o.generate_stubs = true;
            match variant {
                "default" => {}
                "async" => {
                    o.async_.push("all");
                }
                _ => return None,
            }
            o.build()
        }
        "moonbit" => {
            let mut o = wit_bindgen_moonbit::Opts::default();
            o.derive.derive_debug = true;
            o.derive.derive_show = true;
            o.derive.derive_eq = true;
            o.derive.derive_error = true;
            match variant {
                "default" => {}
                "async" => {
                    o.async_.push("all");
                }
                _ => return None,
            }
            o.build()
        }
        "d" => match variant {
            "default" => wit_bindgen_d::Opts::default().build(None),
            _ => return None,
        },
        "markdown" => match variant {
            "default" => wit_bindgen_markdown::Opts::default().build(),
            _ => return None,
        },
        _ => return None,
    })
}

pub fn handle(line: &str) -> String {
    install_hook();
    let toks: Vec<&str> = line.split(' ').filter(|t| !t.is_empty()).collect();
    if toks.len() != 3 {
        return "bad-request expected: <backend> <variant> <hex wit>".into();
    }
    let Some(wit) = unhex(toks[2]) else { return "bad-request wit not hex".into() };
    let Some(mut g) = generator(toks[0], toks[1]) else {
        return format!("bad-request unknown backend/variant {} {}", toks[0], toks[1]);
    };
    let mut resolve = Resolve::default();
    let pkg = match resolve.push_str("case.wit", &wit) {
        Ok(p) => p,
        Err(e) => return format!("bad-wit {}", hex(&format!("{e:#}"))),
    };
    let world = match resolve.select_world(&[pkg], None) {
        Ok(w) => w,
        Err(e) => return format!("bad-wit {}", hex(&format!("{e:#}"))),
    };
    let mut files = Files::default();
    let r = catch_unwind(AssertUnwindSafe(|| g.generate(&mut resolve, world, &mut files)));
    match r {
        Ok(Ok(())) => {
            let (mut n, mut bytes) = (0, 0);
            for (_, b) in files.iter() {
                n += 1;
                bytes += b.len();
            }
            format!("ok {n} {bytes}")
        }
        Ok(Err(e)) => format!("err {}", hex(&format!("{e:#}"))),
        Err(e) => {
            let loc = LAST_PANIC_LOC.with(|c| c.borrow().clone());
            format!("panic {} {}", hex(&panic_msg(e)), hex(&loc))
        }
    }
}
