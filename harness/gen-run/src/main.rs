//! Line server running the real binding generators (public `Opts` + `build()` + `generate`)
//! in-process on small worlds.
//! usage: gen-run <engine>    (requests on stdin, one answer line per request)
//! Strings travel hex-encoded (UTF-8), empty string = `-` (same as lean/Drivers/Util.lean).
//! Engines:  asyncsel (C17) — see asyncsel.rs.   Other builders: add one `mod` + one match arm.
use std::io::{BufRead, Write};

mod util;
mod asyncsel;
mod files;
mod pkggen;
mod md;
mod backends;

fn main() {
    let engine = std::env::args().nth(1).expect("engine");
    let f: fn(&str) -> String = match engine.as_str() {
        "asyncsel" => asyncsel::handle,
        "files" => files::handle,
        "pkggen" => pkggen::handle,
        "md" => md::handle,
        "backends" => backends::handle,
        other => panic!("unknown engine {other}"),
    };
    // generators panic on purpose on some inputs; keep stderr quiet, the answer says `panic`
    std::panic::set_hook(Box::new(|_| {}));
    let stdin = std::io::stdin();
    let stdout = std::io::stdout();
    let mut out = std::io::BufWriter::new(stdout.lock());
    for line in stdin.lock().lines() {
        let line = line.unwrap();
        let ans = match std::panic::catch_unwind(|| f(&line)) {
            Ok(a) => a,
            Err(_) => "panic".to_string(),
        };
        writeln!(out, "{ans}").unwrap();
    }
    out.flush().unwrap();
}
