//! C17 (generated-code half): run the Rust / C / MoonBit generators on a world with `--async`
//! directives and report which core import/export names the output binds.
//!
//! Request:  `<hex wit> <world name | -> <backend> <hex directive>*`     backend = rust | c | moonbit | dump-<backend>
//! Answer:   `ok I <hex module>:<hex name> … E <hex export name> …`  (every core import / export
//!           name found in the generated text, in order of appearance, duplicates removed)
//!           | `err <hex message>` (generation returned Err) | `panic <hex message>` | `bad-request <why>`
use crate::util::*;
use std::panic::{catch_unwind, AssertUnwindSafe};
use wit_bindgen_core::{Files, WorldGenerator};
use wit_parser::Resolve;

fn panic_msg(e: Box<dyn std::any::Any + Send>) -> String {
    if let Some(s) = e.downcast_ref::<&str>() {
        s.to_string()
    } else if let Some(s) = e.downcast_ref::<String>() {
        s.clone()
    } else {
        "?".into()
    }
}

/// All `"…"` string literals that directly follow `key` (e.g. `link_name = `) in `text`.
fn after<'a>(text: &'a str, key: &str) -> Vec<(usize, &'a str)> {
    let mut res = Vec::new();
    let mut at = 0;
    while let Some(i) = text[at..].find(key) {
        let start = at + i + key.len();
        if let Some(j) = text[start..].find('"') {
            res.push((at + i, &text[start..start + j]));
            at = start + j + 1;
        } else {
            break;
        }
    }
    res
}

fn extract(backend: &str, files: &Files) -> (Vec<(String, String)>, Vec<String>) {
    let mut imports = Vec::new();
    let mut exports = Vec::new();
    for (name, bytes) in files.iter() {
        let Ok(text) = std::str::from_utf8(bytes) else { continue };
        match backend {
            "rust" => {
                // #[link(wasm_import_module = "M")] unsafe extern "C" { #[link_name = "N"] …
                let mods = after(text, "wasm_import_module = \"");
                let names = after(text, "link_name = \"");
                for (pos, n) in names {
                    let m = mods.iter().rev().find(|(p, _)| *p < pos).map(|(_, m)| *m).unwrap_or("?");
                    imports.push((m.to_string(), n.to_string()));
                }
                for (_, n) in after(text, "export_name = \"") {
                    exports.push(n.to_string());
                }
            }
            "c" => {
                if !name.ends_with(".c") {
                    continue;
                }
                let mods = after(text, "__import_module__(\"");
                let names = after(text, "__import_name__(\"");
                for (pos, n) in names {
                    let m = mods.iter().rev().find(|(p, _)| *p < pos).map(|(_, m)| *m).unwrap_or("?");
                    imports.push((m.to_string(), n.to_string()));
                }
                for (_, n) in after(text, "__export_name__(\"") {
                    exports.push(n.to_string());
                }
            }
            "moonbit" => {
                // fn name(..) -> T = "module" "name"
                if name.ends_with(".mbt") {
                    for line in text.lines() {
                        if let Some(i) = line.rfind(" = \"") {
                            let rest = &line[i + 4..];
                            if let Some((m, r2)) = rest.split_once("\" \"") {
                                if let Some(n) = r2.strip_suffix('"') {
                                    imports.push((m.to_string(), n.to_string()));
                                }
                            }
                        }
                    }
                } else if name.ends_with("moon.pkg.json") || name.ends_with("moon.pkg") {
                    // link exports: "func:export-name"
                    let mut at = 0;
                    while let Some(i) = text[at..].find('"') {
                        let s = at + i + 1;
                        let Some(j) = text[s..].find('"') else { break };
                        let lit = &text[s..s + j];
                        if let Some((f, e)) = lit.split_once(':') {
                            if !f.is_empty() && f.chars().all(|c| c.is_alphanumeric() || c == '_') {
                                exports.push(e.to_string());
                            }
                        }
                        at = s + j + 1;
                    }
                }
            }
            _ => {}
        }
    }
    let mut seen = std::collections::HashSet::new();
    imports.retain(|x| seen.insert(format!("{}\0{}", x.0, x.1)));
    let mut seen = std::collections::HashSet::new();
    exports.retain(|x| seen.insert(x.clone()));
    (imports, exports)
}

pub fn handle(line: &str) -> String {
    let toks: Vec<&str> = line.split(' ').filter(|t| !t.is_empty()).collect();
    if toks.len() < 3 {
        return "bad-request arity".into();
    }
    let Some(wit) = unhex(toks[0]) else { return "bad-request wit".into() };
    let world_name = if toks[1] == "-" { None } else { Some(toks[1]) };
    let (dump, backend) = match toks[2].strip_prefix("dump-") {
        Some(b) => (true, b),
        None => (false, toks[2]),
    };
    let mut directives = Vec::new();
    for t in &toks[3..] {
        match unhex(t) {
            Some(d) => directives.push(d),
            None => return "bad-request directive".into(),
        }
    }
    let mut resolve = Resolve::default();
    let pkg = match resolve.push_str("case.wit", &wit) {
        Ok(p) => p,
        Err(e) => return format!("bad-request wit-parse {}", hex(&format!("{e:#}"))),
    };
    let world = match resolve.select_world(&[pkg], world_name) {
        Ok(w) => w,
        Err(e) => return format!("bad-request world {}", hex(&format!("{e:#}"))),
    };
    let mut files = Files::default();
    let r = catch_unwind(AssertUnwindSafe(|| -> anyhow::Result<()> {
        match backend {
            "rust" => {
                let mut opts = wit_bindgen_rust::Opts::default();
                for d in &directives {
                    opts.async_.push(d);
                }
                opts.generate_all = true;
                opts.stubs = true;
                let mut g = opts.build();
                g.generate(&mut resolve, world, &mut files)
            }
            "c" => {
                let mut opts = wit_bindgen_c::Opts::default();
                for d in &directives {
                    opts.async_.push(d);
                }
                let mut g = opts.build();
                g.generate(&mut resolve, world, &mut files)
            }
            "moonbit" => {
                let mut opts = wit_bindgen_moonbit::Opts::default();
                for d in &directives {
                    opts.async_.push(d);
                }
                let mut g = opts.build();
                g.generate(&mut resolve, world, &mut files)
            }
            other => anyhow::bail!("unknown backend {other}"),
        }
    }));
    match r {
        Err(e) => format!("panic {}", hex(&panic_msg(e))),
        Ok(Err(e)) => format!("err {}", hex(&format!("{e:#}"))),
        Ok(Ok(())) => {
            if dump {
                let mut s = String::new();
                for (n, b) in files.iter() {
                    s.push_str(&format!("=== {n}\n{}\n", String::from_utf8_lossy(b)));
                }
                return format!("dump {}", hex(&s));
            }
            let (imports, exports) = extract(backend, &files);
            let mut s = String::from("ok I");
            for (m, n) in imports {
                s.push_str(&format!(" {}:{}", hex(&m), hex(&n)));
            }
            s.push_str(" E");
            for e in exports {
                s.push_str(&format!(" {}", hex(&e)));
            }
            s
        }
    }
}
