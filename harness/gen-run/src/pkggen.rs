//! Engine `pkggen` (C30 end-to-end, C27 Rust end-to-end): run the real MoonBit or Rust generator
//! (public `Opts` + `build()` + `WorldGenerator::generate`) on a WIT text that may hold several
//! packages (nested `package ns:name@v { … }` blocks below the root package) and return every file.
//!
//! Request:  `<backend> <hex wit> <world name | -> <opt>*`
//!           backend = moonbit | rust
//!           moonbit opts: `async=<hex directive>` (repeatable, e.g. `all`), `derive` (all derive
//!           options on), `gen-dir=<hex>`, `project=<hex>`, `ignore-stub`, `ignore-module`
//!           rust opts:    `async=<hex directive>`
//! Answer:   `ok <hex file name>:<hex content> …` (generation order)
//!           | `err <hex message>` | `panic <hex message>` | `bad-request <why>`
use crate::util::*;
use std::panic::{catch_unwind, AssertUnwindSafe};
use wit_bindgen_core::{Files, WorldGenerator};
use wit_parser::Resolve;

fn panic_msg(e: Box<dyn std::any::Any + Send>) -> String {
    if let Some(s) = e.downcast_ref::<&str>() {
        s.to_string()
    } else if let Some(s) = e.downcast_ref::<String>() {
        s.clone()
    } else {
        "?".into()
    }
}

fn generator(backend: &str, opts: &[&str]) -> Result<Box<dyn WorldGenerator>, String> {
    match backend {
        "moonbit" => {
            let mut o = wit_bindgen_moonbit::Opts::default();
            for opt in opts {
                if let Some(d) = opt.strip_prefix("async=") {
                    o.async_.push(&unhex(d).ok_or("async directive not hex")?);
                } else if *opt == "derive" {
                    o.derive.derive_debug = true;
                    o.derive.derive_show = true;
                    o.derive.derive_eq = true;
                    o.derive.derive_error = true;
                } else if let Some(d) = opt.strip_prefix("gen-dir=") {
                    o.gen_dir = unhex(d).ok_or("gen-dir not hex")?;
                } else if let Some(d) = opt.strip_prefix("project=") {
                    o.project_name = Some(unhex(d).ok_or("project not hex")?);
                } else if *opt == "ignore-stub" {
                    o.ignore_stub = true;
                } else if *opt == "ignore-module" {
                    o.ignore_module_file = true;
                } else {
                    return Err(format!("unknown moonbit option {opt}"));
                }
            }
            if o.gen_dir.is_empty() {
                // `Opts::default()` leaves gen_dir empty; the CLI default is "gen"
                o.gen_dir = "gen".into();
            }
            Ok(o.build())
        }
        "rust" => {
            let mut o = wit_bindgen_rust::Opts::default();
            o.generate_all = true;
            for opt in opts {
                if let Some(d) = opt.strip_prefix("async=") {
                    o.async_.push(&unhex(d).ok_or("async directive not hex")?);
                } else {
                    return Err(format!("unknown rust option {opt}"));
                }
            }
            Ok(Box::new(o.build()))
        }
        _ => Err(format!("unknown backend {backend}")),
    }
}

pub fn handle(line: &str) -> String {
    let toks: Vec<&str> = line.split(' ').filter(|t| !t.is_empty()).collect();
    if toks.len() < 3 {
        return "bad-request expected: <backend> <hex wit> <world|-> <opt>*".into();
    }
    let Some(wit) = unhex(toks[1]) else { return "bad-request wit not hex".into() };
    let world_name = if toks[2] == "-" { None } else { Some(toks[2]) };
    let mut g = match generator(toks[0], &toks[3..]) {
        Ok(g) => g,
        Err(e) => return format!("bad-request {e}"),
    };
    let r = catch_unwind(AssertUnwindSafe(|| -> anyhow::Result<Files> {
        let mut resolve = Resolve::default();
        let pkg = resolve.push_str("case.wit", &wit)?;
        let world = resolve.select_world(&[pkg], world_name)?;
        let mut files = Files::default();
        g.generate(&mut resolve, world, &mut files)?;
        Ok(files)
    }));
    match r {
        Ok(Ok(files)) => {
            let mut out = String::from("ok");
            for (name, bytes) in files.iter() {
                out.push(' ');
                out.push_str(&hex(name));
                out.push(':');
                out.push_str(&hex(&String::from_utf8_lossy(bytes)));
            }
            out
        }
        Ok(Err(e)) => format!("err {}", hex(&format!("{e:#}"))),
        Err(e) => format!("panic {}", hex(&panic_msg(e))),
    }
}
