//! C28: drives the real `wit_bindgen_core::Types` (crates/core/src/types.rs) in-process.
//!
//! usage: typeseq-run          (requests on stdin, one answer line per request)
//!
//! request : `W=<hex wit text> M=<hex world name> F=<filter> F=<filter> …`
//!           filter = `all` | `none` | `kinds` (the Rust backend's default closure) |
//!                    `rand:<seed>:<permille>` (pseudo-random subset of type ids)
//! answer  : `ok T=<table> N=<named bits> U=<funcs> L=<world live ids> I=<infos after analyze>
//!            X=<filter bits>;<reps, ids ascending>;<reps, ids descending>;<infos after collect> …`
//!           or `err:<message>` if the WIT text does not parse, `panic` on a panic.
//!
//! The exported table is the `Resolve`'s type arena in index order, so that the Lean model
//! (`lean/Witverif/Text/TypesEq.lean`) runs on exactly what the real code saw.
use std::fmt::Write as _;
use std::io::{BufRead, Write};
use wit_bindgen_core::Types;
use wit_parser::*;

fn hex(s: &str) -> String {
    if s.is_empty() {
        return "-".into();
    }
    s.bytes().map(|b| format!("{b:02x}")).collect()
}

fn unhex(h: &str) -> Option<String> {
    if h == "-" {
        return Some(String::new());
    }
    if h.len() % 2 != 0 {
        return None;
    }
    let mut v = Vec::new();
    for i in (0..h.len()).step_by(2) {
        v.push(u8::from_str_radix(h.get(i..i + 2)?, 16).ok()?);
    }
    String::from_utf8(v).ok()
}

fn ty(t: &Type) -> String {
    let p = |k: u32| format!("p{k}");
    match t {
        Type::Bool => p(0),
        Type::U8 => p(1),
        Type::S8 => p(2),
        Type::U16 => p(3),
        Type::S16 => p(4),
        Type::U32 => p(5),
        Type::S32 => p(6),
        Type::U64 => p(7),
        Type::S64 => p(8),
        Type::F32 => p(9),
        Type::F64 => p(10),
        Type::Char => p(11),
        Type::String => p(12),
        Type::ErrorContext => p(13),
        Type::Id(id) => format!("i{}", id.index()),
    }
}

fn opt_ty(t: &Option<Type>) -> String {
    match t {
        Some(t) => ty(t),
        None => "-".into(),
    }
}

fn def(kind: &TypeDefKind) -> String {
    match kind {
        TypeDefKind::Record(r) => {
            let mut s = "R".to_string();
            for f in &r.fields {
                write!(s, "/{}:{}", hex(&f.name), ty(&f.ty)).unwrap();
            }
            s
        }
        TypeDefKind::Resource => "Z".into(),
        TypeDefKind::Handle(Handle::Own(r)) => format!("H/{}", r.index()),
        TypeDefKind::Handle(Handle::Borrow(r)) => format!("B/{}", r.index()),
        TypeDefKind::Flags(f) => {
            let mut s = "F".to_string();
            for f in &f.flags {
                write!(s, "/{}", hex(&f.name)).unwrap();
            }
            s
        }
        TypeDefKind::Tuple(t) => {
            let mut s = "T".to_string();
            for t in &t.types {
                write!(s, "/{}", ty(t)).unwrap();
            }
            s
        }
        TypeDefKind::Variant(v) => {
            let mut s = "V".to_string();
            for c in &v.cases {
                write!(s, "/{}:{}", hex(&c.name), opt_ty(&c.ty)).unwrap();
            }
            s
        }
        TypeDefKind::Enum(e) => {
            let mut s = "E".to_string();
            for c in &e.cases {
                write!(s, "/{}", hex(&c.name)).unwrap();
            }
            s
        }
        TypeDefKind::Option(t) => format!("O/{}", ty(t)),
        TypeDefKind::Result(r) => format!("X/{}/{}", opt_ty(&r.ok), opt_ty(&r.err)),
        TypeDefKind::List(t) => format!("L/{}", ty(t)),
        TypeDefKind::Map(k, v) => format!("M/{}/{}", ty(k), ty(v)),
        TypeDefKind::FixedLengthList(t, n) => format!("A/{}/{}", ty(t), n),
        TypeDefKind::Future(t) => format!("U/{}", opt_ty(t)),
        TypeDefKind::Stream(t) => format!("S/{}", opt_ty(t)),
        TypeDefKind::Type(t) => format!("Y/{}", ty(t)),
        TypeDefKind::Unknown => "?".into(),
    }
}

fn ids(it: impl Iterator<Item = TypeId>) -> String {
    let v: Vec<String> = it.map(|i| i.index().to_string()).collect();
    if v.is_empty() {
        "-".into()
    } else {
        v.join(".")
    }
}

fn func(resolve: &Resolve, f: &Function, import: bool) -> String {
    let params: Vec<String> = f.params.iter().map(|p| ty(&p.ty)).collect();
    // exactly the `LiveTypes` queries `type_info_func` makes
    let mut pl = LiveTypes::default();
    for p in f.params.iter() {
        pl.add_type(resolve, &p.ty);
    }
    let mut rl = LiveTypes::default();
    if let Some(t) = &f.result {
        rl.add_type(resolve, t);
    }
    format!(
        "{}/{}/{}/{}/{}",
        import as u8,
        if params.is_empty() { "-".to_string() } else { params.join(".") },
        opt_ty(&f.result),
        ids(pl.iter()),
        ids(rl.iter())
    )
}

fn info_bits(types: &Types, id: TypeId) -> String {
    let i = types.get(id);
    let b = (i.borrowed as u32)
        | (i.owned as u32) << 1
        | (i.error as u32) << 2
        | (i.has_list as u32) << 3
        | (i.has_tuple as u32) << 4
        | (i.has_resource as u32) << 5
        | (i.has_borrow_handle as u32) << 6
        | (i.has_own_handle as u32) << 7;
    format!("{b:02x}")
}

fn splitmix(mut x: u64) -> u64 {
    x = x.wrapping_add(0x9e3779b97f4a7c15);
    let mut z = x;
    z = (z ^ (z >> 30)).wrapping_mul(0xbf58476d1ce4e5b9);
    z = (z ^ (z >> 27)).wrapping_mul(0x94d049bb133111eb);
    z ^ (z >> 31)
}

fn filter_bits(resolve: &Resolve, spec: &str) -> Option<Vec<bool>> {
    let n = resolve.types.len();
    let mut v = Vec::with_capacity(n);
    for (id, td) in resolve.types.iter() {
        let b = if spec == "all" {
            true
        } else if spec == "none" {
            false
        } else if spec == "kinds" {
            // the closure of crates/rust/src/lib.rs when merge_structurally_equal_types is off
            matches!(
                td.kind,
                TypeDefKind::Type(_)
                    | TypeDefKind::Handle(_)
                    | TypeDefKind::List(_)
                    | TypeDefKind::Tuple(_)
                    | TypeDefKind::Option(_)
                    | TypeDefKind::Result(_)
                    | TypeDefKind::Future(_)
                    | TypeDefKind::Stream(_)
                    | TypeDefKind::Map(..)
                    | TypeDefKind::FixedLengthList(..)
            )
        } else if let Some(rest) = spec.strip_prefix("rand:") {
            let (seed, pm) = rest.split_once(':')?;
            let seed: u64 = seed.parse().ok()?;
            let pm: u64 = pm.parse().ok()?;
            splitmix(seed ^ splitmix(id.index() as u64)) % 1000 < pm
        } else {
            return None;
        };
        v.push(b);
    }
    Some(v)
}

fn handle(line: &str) -> String {
    let mut wit = None;
    let mut world_name = None;
    let mut filters = Vec::new();
    for tok in line.split(' ').filter(|t| !t.is_empty()) {
        if let Some(h) = tok.strip_prefix("W=") {
            wit = unhex(h);
        } else if let Some(h) = tok.strip_prefix("M=") {
            world_name = unhex(h);
        } else if let Some(f) = tok.strip_prefix("F=") {
            filters.push(f.to_string());
        } else {
            return "bad-request".into();
        }
    }
    let (Some(wit), Some(world_name)) = (wit, world_name) else {
        return "bad-request".into();
    };
    let mut resolve = Resolve::default();
    if let Err(e) = resolve.push_str("t.wit", &wit) {
        let msg = format!("{e:#}").replace(['\n', ' ', '\t'], "_");
        return format!("err:{msg}");
    }
    let Some(world) = resolve
        .worlds
        .iter()
        .find(|(_, w)| w.name == world_name)
        .map(|(id, _)| id)
    else {
        return "err:no-such-world".into();
    };

    // the table, in arena order
    let mut table = Vec::new();
    let mut named = String::new();
    let mut all_ids = Vec::new();
    for (i, (id, td)) in resolve.types.iter().enumerate() {
        if id.index() != i {
            return "err:arena-index-mismatch".into();
        }
        table.push(def(&td.kind));
        named.push(if td.name.is_some() { '1' } else { '0' });
        all_ids.push(id);
    }
    // the functions in the order `Types::analyze` visits them
    let mut funcs = Vec::new();
    for (_, w) in resolve.worlds.iter() {
        for (import, (_, item)) in w
            .imports
            .iter()
            .map(|i| (true, i))
            .chain(w.exports.iter().map(|i| (false, i)))
        {
            match item {
                WorldItem::Function(f) => funcs.push(func(&resolve, f, import)),
                WorldItem::Interface { id, .. } => {
                    for (_, f) in resolve.interfaces[*id].functions.iter() {
                        funcs.push(func(&resolve, f, import));
                    }
                }
                WorldItem::Type { .. } => {}
            }
        }
    }
    let mut live = LiveTypes::default();
    live.add_world(&resolve, world);

    let mut out = String::from("ok");
    write!(
        out,
        " T={} N={} U={} L={}",
        if table.is_empty() { "-".to_string() } else { table.join(",") },
        if named.is_empty() { "-" } else { &named },
        if funcs.is_empty() { "-".to_string() } else { funcs.join(",") },
        ids(live.iter())
    )
    .unwrap();

    {
        let mut types = Types::default();
        types.analyze(&resolve);
        let infos: String = all_ids.iter().map(|id| info_bits(&types, *id)).collect();
        write!(out, " I={}", if infos.is_empty() { "-" } else { &infos }).unwrap();
    }
    for f in &filters {
        let Some(bits) = filter_bits(&resolve, f) else {
            return "bad-request".into();
        };
        let mut types = Types::default();
        types.analyze(&resolve);
        types.collect_equal_types(&resolve, world, &|id| bits[id.index()]);
        let fwd: Vec<TypeId> = all_ids
            .iter()
            .map(|id| types.get_representative_type(*id))
            .collect();
        let mut rev: Vec<TypeId> = all_ids
            .iter()
            .rev()
            .map(|id| types.get_representative_type(*id))
            .collect();
        rev.reverse();
        let infos: String = all_ids.iter().map(|id| info_bits(&types, *id)).collect();
        let bits_s: String = bits.iter().map(|b| if *b { '1' } else { '0' }).collect();
        write!(
            out,
            " X={};{};{};{}",
            if bits_s.is_empty() { "-" } else { &bits_s },
            ids(fwd.into_iter()),
            ids(rev.into_iter()),
            if infos.is_empty() { "-" } else { &infos }
        )
        .unwrap();
    }
    out
}

fn main() {
    let stdin = std::io::stdin();
    let stdout = std::io::stdout();
    let mut out = std::io::BufWriter::new(stdout.lock());
    std::panic::set_hook(Box::new(|_| {}));
    for line in stdin.lock().lines() {
        let line = line.unwrap();
        let ans = match std::panic::catch_unwind(|| handle(&line)) {
            Ok(a) => a,
            Err(_) => "panic".to_string(),
        };
        writeln!(out, "{ans}").unwrap();
    }
    out.flush().unwrap();
}
