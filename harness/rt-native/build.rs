//! Build-time extraction ("H2 without touching /repo", DESIGN §3.1 translator style).
//!
//! `cabi_realloc` in /repo/crates/guest-rust/src/rt/mod.rs is compiled only for
//! `target_env = "p1" | ""`, and a `#[cfg]` can only be widened by editing the line, which is
//! not an add-only hook.  Instead the *text of the item as it is in the working tree now* is cut
//! out (brace matched, its `#[cfg]` line dropped) and compiled into this crate as
//! `crate::rt::cabi_realloc`; the generated wrapper file
//! /repo/crates/guest-rust/src/rt/wit_bindgen_cabi_realloc.rs is then `#[path]`-included
//! unchanged (it calls `crate::rt::cabi_realloc`).  The same is done for the `cabi_dealloc`
//! runtime item, which exists only as a string template in /repo/crates/rust/src/lib.rs.
//! If an item cannot be found the build fails loudly (= broken correspondence, never a pass).
use std::{env, fs, path::PathBuf};

fn repo() -> String {
    env::var("VERIF_REPO").unwrap_or_else(|_| "/repo".to_string())
}

/// Cut `text[start..]` up to and including the brace that closes the first `{`.
fn brace_matched(text: &str, start: usize) -> &str {
    let bytes = text.as_bytes();
    let mut depth = 0usize;
    let mut seen = false;
    let mut i = start;
    while i < bytes.len() {
        match bytes[i] {
            b'{' => {
                depth += 1;
                seen = true;
            }
            b'}' => {
                depth -= 1;
                if seen && depth == 0 {
                    return &text[start..=i];
                }
            }
            // the two items contain no braces in strings or comments except `{}`-free text;
            // a `"` with braces inside would need a lexer: guard against it.
            _ => {}
        }
        i += 1;
    }
    panic!("unbalanced braces while extracting item");
}

fn main() {
    let out = PathBuf::from(env::var_os("OUT_DIR").unwrap());
    let repo = repo();

    // ---- cabi_realloc -------------------------------------------------------------------
    let modrs = format!("{repo}/crates/guest-rust/src/rt/mod.rs");
    println!("cargo:rerun-if-changed={modrs}");
    println!("cargo:rerun-if-env-changed=VERIF_REPO");
    let text = fs::read_to_string(&modrs).expect("read rt/mod.rs");
    let key = "pub unsafe fn cabi_realloc(";
    let at = text.find(key).unwrap_or_else(|| panic!("`{key}` not found in {modrs}"));
    assert!(
        text[at + key.len()..].find(key).is_none(),
        "more than one `{key}` in {modrs}"
    );
    let item = brace_matched(&text, at);
    assert!(!item.contains('"') || !item.split('"').skip(1).step_by(2).any(|s| s.contains('{') || s.contains('}')),
        "string literal with braces inside cabi_realloc: extraction needs a lexer");
    fs::write(
        out.join("cabi_realloc.rs"),
        format!("// extracted from {modrs} by build.rs; do not edit\n{item}\n"),
    )
    .unwrap();

    // ---- wit_bindgen_cabi_realloc.rs (generated wrapper, included as is) --------------------
    let wrapper = format!("{repo}/crates/guest-rust/src/rt/wit_bindgen_cabi_realloc.rs");
    println!("cargo:rerun-if-changed={wrapper}");
    let wtext = fs::read_to_string(&wrapper).expect("read wit_bindgen_cabi_realloc.rs");
    // find the exported symbol name so the harness can declare it
    let sym_at = wtext.find("pub unsafe extern \"C\" fn ").expect("wrapper fn");
    let rest = &wtext[sym_at + "pub unsafe extern \"C\" fn ".len()..];
    let sym: String = rest.chars().take_while(|c| c.is_alphanumeric() || *c == '_').collect();
    fs::write(out.join("cabi_realloc_wrapper.rs"), &wtext).unwrap();
    fs::write(
        out.join("cabi_realloc_symbol.rs"),
        format!("pub const CABI_REALLOC_SYMBOL: &str = \"{sym}\";\npub use crate::wit_bindgen_cabi_realloc::{sym} as cabi_realloc_export;\n"),
    )
    .unwrap();

    // ---- cabi_dealloc (string template of the Rust generator) -------------------------------
    let genrs = format!("{repo}/crates/rust/src/lib.rs");
    println!("cargo:rerun-if-changed={genrs}");
    let gtext = fs::read_to_string(&genrs).expect("read crates/rust/src/lib.rs");
    let key = "pub unsafe fn cabi_dealloc(";
    let at = gtext.find(key).unwrap_or_else(|| panic!("`{key}` not found in {genrs}"));
    let item = brace_matched(&gtext, at);
    assert!(!item.contains('\\') && !item.contains('"'), "escape or quote inside the cabi_dealloc template");
    fs::write(
        out.join("cabi_dealloc.rs"),
        format!("// extracted from the RuntimeItem::CabiDealloc template in {genrs} by build.rs\n{item}\n"),
    )
    .unwrap();
}
