//! Engine `realloc` (C24): drives the guest allocation entry points with request histories.
//!
//! Code under test (all from the /repo working tree, see build.rs and README.md):
//!   * `cabi_realloc_wit_bindgen_<ver>` (generated wrapper) -> `rt::cabi_realloc`
//!   * `wit_bindgen::rt::Cleanup::{new, forget, drop}` (linked from the real crate)
//!   * `cabi_dealloc` (RuntimeItem::CabiDealloc template of the Rust generator)
//!
//! One history per request line, tokens separated by blanks:
//!   r:<slot>:<align_log2>:<new>   host request cabi_realloc(slot.ptr, slot.size, 2^a, new); the
//!                                 result replaces the slot (an empty slot is ptr 0, size 0)
//!   d:<slot>                      cabi_dealloc(slot.ptr, slot.size, slot.align); slot emptied
//!   n:<size>:<align_log2>         Cleanup::new(Layout{size, 2^a}); cleanups are numbered 0,1,…
//!   x:<i>                         drop cleanup i          f:<i>   Cleanup::forget(i)
//! Answer: one token per op, then `end:<forgotten-still-live flags>:<allocator contract errors>`
//!   r=<rel>:<aligned>:<prefix>:<calls>:<live>:<err>   rel = align|null|blk ; prefix = 1|0|-
//!   d=<calls>:<err>      n=<null|blk>:<some|none>:<aligned>:<calls>:<err>     x=<calls>:<err>   f=<calls>:<err>
//!   calls = `-` or `+`-joined GlobalAlloc calls made by the code under test during the op:
//!       A(size,align) | R(ok|bad,size,align,new) | D(ok|bad,size,align)    (ok = the pointer
//!       argument is the block the op is about)
//!   err = number of GlobalAlloc *caller* contract errors the checking allocator saw in the op
//!   `panic` replaces the answer of an op that panicked (the slot is then left unchanged).
use crate::alloc_check as ca;
use std::alloc::Layout;
use wit_bindgen::rt::Cleanup;

use crate::sym::cabi_realloc_export;

#[derive(Clone, Copy, Default)]
struct Slot {
    ptr: usize,
    size: usize,
    align: usize,
}

fn pat(i: usize, salt: usize) -> u8 {
    (i.wrapping_mul(31).wrapping_add(salt.wrapping_mul(17)).wrapping_add(i >> 8) & 0xff) as u8
}

fn calls_str(calls: &[ca::Call], about: usize) -> String {
    if calls.is_empty() {
        return "-".into();
    }
    calls
        .iter()
        .map(|c| {
            let ok = if c.ptr == about { "ok" } else { "bad" };
            match c.kind {
                ca::Kind::Alloc => format!("A({},{})", c.size, c.align),
                ca::Kind::Realloc => format!("R({ok},{},{},{})", c.size, c.align, c.new_size),
                ca::Kind::Dealloc => format!("D({ok},{},{})", c.size, c.align),
            }
        })
        .collect::<Vec<_>>()
        .join("+")
}

/// run `f` with the allocator log on; nothing else allocates in between
fn logged<R>(f: impl FnOnce() -> R + std::panic::UnwindSafe) -> (Option<R>, Vec<ca::Call>, u32) {
    let e0 = ca::errors().0;
    ca::start_log();
    let r = std::panic::catch_unwind(f);
    let (calls, overflow) = ca::stop_log();
    assert!(!overflow);
    let e1 = ca::errors().0;
    match r {
        Ok(v) => (Some(v), calls, e1 - e0),
        Err(p) => {
            // the panic payload (a String) was allocated inside the window: drop its calls
            drop(p);
            (None, Vec::new(), e1 - e0)
        }
    }
}

pub fn handle(line: &str) -> String {
    ca::clear_errors();
    let mut slots = [Slot::default(); 8];
    let mut cleanups: Vec<(usize, Layout, Option<Cleanup>, bool)> = Vec::new(); // ptr, layout, obj, forgotten
    let mut out: Vec<String> = Vec::new();
    let mut salt = 0usize;
    for tok in line.split(' ').filter(|t| !t.is_empty()) {
        let f: Vec<&str> = tok.split(':').collect();
        let num = |i: usize| -> Option<usize> { f.get(i).and_then(|s| s.parse().ok()) };
        salt += 1;
        match f[0] {
            "r" => {
                let (Some(si), Some(a), Some(new)) = (num(1), num(2), num(3)) else { return "bad-op".into() };
                if si >= slots.len() || a > 16 { return "bad-op".into(); }
                let s = slots[si];
                let align = 1usize << a;
                // fill the old block so that prefix preservation can be observed
                for i in 0..s.size {
                    unsafe { *((s.ptr + i) as *mut u8) = pat(i, salt) };
                }
                // A panic cannot unwind out of the `extern "C"` wrapper (the process would abort, as a
                // wasm guest would trap), so the one request class for which the code documents a
                // precondition (`old_len != 0` requires `new_len != 0`) goes to the inner Rust
                // function directly, where the outcome (panic / returned value) can be observed.
                let (r, calls, err) = logged(move || unsafe {
                    if s.size != 0 && new == 0 {
                        crate::rt::cabi_realloc(s.ptr as *mut u8, s.size, align, new) as usize
                    } else {
                        cabi_realloc_export(s.ptr as *mut u8, s.size, align, new) as usize
                    }
                });
                match r {
                    None => out.push("r=panic".into()),
                    Some(p) => {
                        let rel = if p == 0 { "null" } else if s.size == 0 && new == 0 && p == align { "align" }
                                  else if ca::is_live(p).is_some() { "blk" } else if p == align { "align" } else { "wild" };
                        let aligned = (p % align == 0) as u8;
                        let live = match ca::is_live(p) {
                            Some((sz, al)) => if sz == new && al == align { "live" } else { "live-other-layout" },
                            None => "notlive",
                        };
                        let prefix = if s.size == 0 || new == 0 || rel != "blk" { "-".to_string() } else {
                            let n = s.size.min(new);
                            let ok = (0..n).all(|i| unsafe { *((p + i) as *const u8) } == pat(i, salt));
                            (ok as u8).to_string()
                        };
                        out.push(format!("r={rel}:{aligned}:{prefix}:{}:{live}:{err}", calls_str(&calls, s.ptr)));
                        slots[si] = Slot { ptr: p, size: new, align };
                    }
                }
            }
            "d" => {
                let Some(si) = num(1) else { return "bad-op".into() };
                if si >= slots.len() { return "bad-op".into(); }
                let s = slots[si];
                let al = if s.align == 0 { 1 } else { s.align };
                let (r, calls, err) = logged(move || unsafe {
                    crate::gen_rt::cabi_dealloc(s.ptr as *mut u8, s.size, al)
                });
                match r {
                    None => out.push("d=panic".into()),
                    Some(()) => {
                        out.push(format!("d={}:{err}", calls_str(&calls, s.ptr)));
                        slots[si] = Slot::default();
                    }
                }
            }
            "n" => {
                let (Some(size), Some(a)) = (num(1), num(2)) else { return "bad-op".into() };
                if a > 16 { return "bad-op".into(); }
                let layout = Layout::from_size_align(size, 1 << a).unwrap();
                let (r, calls, err) = logged(move || Cleanup::new(layout));
                match r {
                    None => out.push("n=panic".into()),
                    Some((p, c)) => {
                        let p = p as usize;
                        let rel = if p == 0 { "null" } else if ca::is_live(p) == Some((size, 1 << a)) { "blk" } else { "wild" };
                        let aligned = (p % (1 << a) == 0) as u8;
                        out.push(format!("n={rel}:{}:{aligned}:{}:{err}",
                            if c.is_some() { "some" } else { "none" }, calls_str(&calls, 0)));
                        cleanups.push((p, layout, c, false));
                    }
                }
            }
            "x" | "f" => {
                let Some(i) = num(1) else { return "bad-op".into() };
                if i >= cleanups.len() { return "bad-op".into(); }
                let obj = cleanups[i].2.take();
                let p = cleanups[i].0;
                let forget = f[0] == "f";
                // only a cleanup that still exists can be forgotten (x/f on a consumed one: no-op)
                if forget && obj.is_some() { cleanups[i].3 = true; }
                let (r, calls, err) = logged(std::panic::AssertUnwindSafe(move || {
                    match obj {
                        Some(c) if forget => c.forget(),
                        Some(c) => drop(c),
                        None => {}
                    }
                }));
                match r {
                    None => out.push(format!("{}=panic", f[0])),
                    Some(()) => out.push(format!("{}={}:{err}", f[0], calls_str(&calls, p))),
                }
            }
            _ => return "bad-op".into(),
        }
    }
    // end of history: forgotten cleanups must still be live (then the harness frees them itself);
    // host-held blocks and un-dropped cleanups are released by the harness, not under test
    let mut fl = String::new();
    for (p, layout, obj, forgotten) in cleanups.iter_mut() {
        if *forgotten && layout.size() != 0 {
            let live = ca::is_live(*p) == Some((layout.size(), layout.align()));
            fl.push(if live { '1' } else { '0' });
            if live {
                unsafe { std::alloc::dealloc(*p as *mut u8, *layout) };
            }
        }
        drop(obj.take());
    }
    for s in slots {
        if s.size != 0 && ca::is_live(s.ptr).is_some() {
            unsafe { std::alloc::dealloc(s.ptr as *mut u8, Layout::from_size_align(s.size, s.align).unwrap()) };
        }
    }
    let (errs, first) = ca::errors();
    let detail = match first {
        Some(e) if errs > 0 => format!(":{}", e.label()),
        _ => String::new(),
    };
    out.push(format!("end:{}:{errs}{detail}", if fl.is_empty() { "-" } else { &fl }));
    out.join(" ")
}
