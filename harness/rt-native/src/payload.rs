//! Instrumented payload types and vtables for streams and futures (C19/C20), with an ownership
//! ledger per item.
//!
//! Payload kinds (chan_host::Kind):
//!   B  `u8`     canonical: `StreamVtable { lower: None, lift: None, dealloc_lists: None }` (streams only)
//!   H W D T  `u16`, `u32`, `u64`, `(u32, u32)`: canonical like `u8` but 2, 4, 8, 8 bytes wide (streams only);
//!            the values are patterns in which every byte depends on the id (chan_host::w_value …)
//!   R  `RItem`  needs lowering, owns no list: 8 bytes `(chan: u32, id: u32)`
//!   S  `SItem`  needs lowering and owns a heap list: 16 bytes `(ptr, len)` of the bytes "<c>:<id>"
//! Items are numbered per channel; every callback records a token and checks the ledger:
//!   lo<c>:<id>   `lower`  (Rust value -> lowered form; ownership of the list moves into the slab)
//!   li<c>:<id>   `lift`   (lowered form -> Rust value)
//!   dli<c>:<id>  `dealloc_lists` (the lowered form's list is freed: the value was sent)
//!   vd<c>:<id>   a Rust value was dropped
//!   def<c>:<id>  the future's `default` constructor ran (ids 900, 901, …)
//! A trailing `!reason` marks an anomaly the ledger saw (never predicted by the model).
use crate::alloc_check as ca;
use crate::chan_host::{self, Kind};
use crate::sym::cabi_realloc_export;
use crate::trace::ev;
use std::alloc::Layout;
use std::cell::RefCell;
use std::collections::BTreeMap;
use wit_bindgen::rt::async_support::{FutureVtable, StreamVtable};

#[derive(Clone, Copy, PartialEq, Debug)]
pub enum Own {
    /// inside a live Rust value
    Rust,
    /// lowered form in a slab / read buffer (list data at `ptr`, `len`)
    Lowered(usize, usize),
    /// list freed by `dealloc_lists`
    Released,
    /// Rust value dropped
    Dropped,
}

#[derive(Clone, Copy, Debug)]
pub struct Item {
    pub own: Own,
    /// the peer took a copy (guest-writer channels)
    pub taken: bool,
    /// the peer produced it (guest-reader channels)
    pub from_peer: bool,
    pub kind: Kind,
}

#[derive(Default)]
pub struct Ledger {
    pub items: BTreeMap<(usize, u32), Item>,
    /// channel being opened (`new` of the vtables has no argument)
    pub opening: usize,
    /// per channel: id of the item whose `lower` destination is a slab base (0 = none expected)
    pub expect_slab: Vec<u32>,
    pub defaults: Vec<u32>,
    pub watches: usize,
}

thread_local! {
    pub static LEDGER: RefCell<Ledger> = RefCell::new(Ledger::default());
}

pub fn reset(nchans: usize) {
    LEDGER.with(|l| {
        *l.borrow_mut() = Ledger { items: BTreeMap::new(), opening: 0, expect_slab: vec![0; nchans], defaults: vec![0; nchans], watches: 0 };
    });
}

pub fn watch_slab(ptr: usize, c: usize) {
    if ptr == 0 {
        return;
    }
    let ok = LEDGER.with(|l| {
        let mut l = l.borrow_mut();
        l.watches += 1;
        l.watches < 250
    });
    if ok {
        ca::watch(ptr, c as u32);
    } else {
        ev("!watch-table-full");
    }
}

fn data_of(c: usize, id: u32) -> Vec<u8> {
    format!("{c}:{id}").into_bytes()
}

/// parse the list data of an S item (host side and lift side); `None` = garbage / dead memory
pub unsafe fn parse_data(c: usize, dp: usize, len: usize) -> Option<u32> {
    if dp == 0 || len == 0 || len > 12 {
        return None;
    }
    // the list must be a live block of exactly this length
    if ca::is_live(dp) != Some((len, 1)) {
        return None;
    }
    let bytes = unsafe { std::slice::from_raw_parts(dp as *const u8, len) };
    let s = std::str::from_utf8(bytes).ok()?;
    let (a, b) = s.split_once(':')?;
    if a.parse::<usize>().ok()? != c {
        return None;
    }
    b.parse::<u32>().ok()
}

/// the peer writer creates the list of item `id` in guest memory (through the guest's realloc)
pub unsafe fn host_make_data(c: usize, id: u32) -> (usize, usize) {
    let d = data_of(c, id);
    let p = unsafe { cabi_realloc_export(std::ptr::null_mut(), 0, 1, d.len()) };
    unsafe { std::ptr::copy_nonoverlapping(d.as_ptr(), p, d.len()) };
    LEDGER.with(|l| {
        l.borrow_mut().items.insert((c, id), Item { own: Own::Lowered(p as usize, d.len()), taken: false, from_peer: true, kind: Kind::S });
    });
    (p as usize, d.len())
}

pub fn host_made(c: usize, id: u32, kind: Kind) {
    LEDGER.with(|l| {
        l.borrow_mut().items.entry((c, id)).or_insert(Item { own: Own::Lowered(0, 0), taken: false, from_peer: true, kind });
    });
}

pub fn host_took(c: usize, id: u32) {
    LEDGER.with(|l| {
        if let Some(it) = l.borrow_mut().items.get_mut(&(c, id)) {
            it.taken = true;
        }
    });
}

fn created(c: usize, id: u32, kind: Kind) {
    LEDGER.with(|l| {
        l.borrow_mut().items.insert((c, id), Item { own: Own::Rust, taken: false, from_peer: false, kind });
    });
}

/// ledger transition; returns an anomaly flag ("" = fine)
fn transition(c: usize, id: u32, f: impl FnOnce(&mut Item) -> &'static str) -> &'static str {
    LEDGER.with(|l| match l.borrow_mut().items.get_mut(&(c, id)) {
        None => "!unknown-item",
        Some(it) => f(it),
    })
}

// ------------------------------------------------------------------------------- the types

pub trait Payload: Sized + 'static {
    const KIND: Kind;
    fn make(c: usize, id: u32) -> Self;
    fn id(&self) -> u32;
    fn svt() -> &'static StreamVtable<Self>;
    fn fvt() -> &'static FutureVtable<Self>;
}

pub struct RItem {
    pub c: u32,
    pub id: u32,
}

pub struct SItem {
    pub c: u32,
    pub id: u32,
    pub data: Option<Box<[u8]>>,
}

fn value_dropped(c: u32, id: u32) {
    let flag = transition(c as usize, id, |it| {
        if it.own != Own::Rust {
            return "!drop-not-owned";
        }
        it.own = Own::Dropped;
        if it.taken { "!dropped-after-transfer" } else { "" }
    });
    ev(&format!("vd{c}:{id}{flag}"));
}

impl Drop for RItem {
    fn drop(&mut self) {
        value_dropped(self.c, self.id);
    }
}
impl Drop for SItem {
    fn drop(&mut self) {
        value_dropped(self.c, self.id);
    }
}

// ---- callbacks, R

unsafe fn r_lower(v: RItem, dst: *mut u8) {
    let (c, id) = (v.c, v.id);
    std::mem::forget(v);
    let flag = transition(c as usize, id, |it| {
        if it.own != Own::Rust {
            return "!lower-not-owned";
        }
        it.own = Own::Lowered(0, 0);
        ""
    });
    maybe_watch(c as usize, id, dst as usize);
    unsafe {
        (dst as *mut u32).write_unaligned(c);
        (dst.add(4) as *mut u32).write_unaligned(id);
    }
    ev(&format!("lo{c}:{id}{flag}"));
}

unsafe fn r_lift(src: *mut u8) -> RItem {
    let (c, id) = unsafe { ((src as *const u32).read_unaligned(), (src.add(4) as *const u32).read_unaligned()) };
    let flag = transition(c as usize, id, |it| {
        if !matches!(it.own, Own::Lowered(..)) {
            return "!lift-not-lowered";
        }
        it.own = Own::Rust;
        if it.taken { "!lift-after-transfer" } else { "" }
    });
    ev(&format!("li{c}:{id}{flag}"));
    RItem { c, id }
}

unsafe fn r_dealloc(src: *mut u8) {
    let (c, id) = unsafe { ((src as *const u32).read_unaligned(), (src.add(4) as *const u32).read_unaligned()) };
    let flag = transition(c as usize, id, |it| {
        if !matches!(it.own, Own::Lowered(..)) {
            return "!dealloc-not-lowered";
        }
        it.own = Own::Released;
        if it.taken { "" } else { "!dealloc-untransferred" }
    });
    ev(&format!("dli{c}:{id}{flag}"));
}

// ---- callbacks, S

unsafe fn s_lower(mut v: SItem, dst: *mut u8) {
    let (c, id) = (v.c, v.id);
    let data = v.data.take().unwrap_or_default();
    std::mem::forget(v);
    let len = data.len();
    let p = Box::into_raw(data) as *mut u8 as usize;
    let flag = transition(c as usize, id, |it| {
        if it.own != Own::Rust {
            return "!lower-not-owned";
        }
        it.own = Own::Lowered(p, len);
        ""
    });
    maybe_watch(c as usize, id, dst as usize);
    unsafe {
        (dst as *mut usize).write_unaligned(p);
        (dst.add(8) as *mut usize).write_unaligned(len);
    }
    ev(&format!("lo{c}:{id}{flag}"));
}

/// which item does the lowered form at `src` claim to be: by pointer (robust against dead lists)
fn s_identify(src: *mut u8) -> Option<(usize, u32, usize, usize)> {
    let (p, len) = unsafe { ((src as *const usize).read_unaligned(), (src.add(8) as *const usize).read_unaligned()) };
    LEDGER.with(|l| {
        l.borrow().items.iter().find_map(|(&(c, id), it)| match it.own {
            Own::Lowered(q, n) if q == p && n == len && p != 0 => Some((c, id, p, len)),
            _ => None,
        })
    })
}

unsafe fn s_lift(src: *mut u8) -> SItem {
    match s_identify(src) {
        Some((c, id, p, len)) => {
            let flag = transition(c, id, |it| {
                it.own = Own::Rust;
                if it.taken { "!lift-after-transfer" } else { "" }
            });
            ev(&format!("li{c}:{id}{flag}"));
            let data = unsafe { Box::from_raw(std::ptr::slice_from_raw_parts_mut(p as *mut u8, len)) };
            SItem { c: c as u32, id, data: Some(data) }
        }
        None => {
            // not a live lowered item of ours: do not touch the pointer
            ev("li?!lift-not-lowered");
            created(99, 0, Kind::S);
            SItem { c: 99, id: 0, data: None }
        }
    }
}

unsafe fn s_dealloc(src: *mut u8) {
    match s_identify(src) {
        Some((c, id, p, len)) => {
            let flag = transition(c, id, |it| {
                it.own = Own::Released;
                if it.taken { "" } else { "!dealloc-untransferred" }
            });
            unsafe { drop(Box::from_raw(std::ptr::slice_from_raw_parts_mut(p as *mut u8, len))) };
            ev(&format!("dli{c}:{id}{flag}"));
        }
        None => ev("dli?!dealloc-not-lowered"),
    }
}

fn maybe_watch(c: usize, id: u32, dst: usize) {
    let hit = LEDGER.with(|l| {
        let mut l = l.borrow_mut();
        if c < l.expect_slab.len() && l.expect_slab[c] == id && id != 0 {
            l.expect_slab[c] = 0;
            true
        } else {
            false
        }
    });
    if hit {
        watch_slab(dst, c);
    }
}

/// the next `lower` of item `id` of channel `c` writes to the base of a fresh slab
pub fn expect_slab(c: usize, id: u32) {
    LEDGER.with(|l| l.borrow_mut().expect_slab[c] = id);
}

// ---- intrinsics (function pointers of the vtables go straight to the mock host)

unsafe extern "C" fn s_new() -> u64 {
    chan_host::new_pair(LEDGER.with(|l| l.borrow().opening))
}
unsafe extern "C" fn s_start_write(h: u32, p: *const u8, n: usize) -> u32 {
    chan_host::copy(h, true, false, p as usize, n)
}
unsafe extern "C" fn s_start_read(h: u32, p: *mut u8, n: usize) -> u32 {
    chan_host::copy(h, false, false, p as usize, n)
}
unsafe extern "C" fn s_cancel_write(h: u32) -> u32 {
    chan_host::cancel(h, true, false)
}
unsafe extern "C" fn s_cancel_read(h: u32) -> u32 {
    chan_host::cancel(h, false, false)
}
unsafe extern "C" fn s_drop_writable(h: u32) {
    chan_host::drop_end(h, true, false)
}
unsafe extern "C" fn s_drop_readable(h: u32) {
    chan_host::drop_end(h, false, false)
}
unsafe extern "C" fn f_new() -> u64 {
    chan_host::new_pair(LEDGER.with(|l| l.borrow().opening))
}
unsafe extern "C" fn f_start_write(h: u32, p: *const u8) -> u32 {
    chan_host::copy(h, true, true, p as usize, 1)
}
unsafe extern "C" fn f_start_read(h: u32, p: *mut u8) -> u32 {
    chan_host::copy(h, false, true, p as usize, 1)
}
unsafe extern "C" fn f_cancel_write(h: u32) -> u32 {
    chan_host::cancel(h, true, true)
}
unsafe extern "C" fn f_cancel_read(h: u32) -> u32 {
    chan_host::cancel(h, false, true)
}
unsafe extern "C" fn f_drop_writable(h: u32) {
    chan_host::drop_end(h, true, true)
}
unsafe extern "C" fn f_drop_readable(h: u32) {
    chan_host::drop_end(h, false, true)
}

macro_rules! svt {
    ($t:ty, $size:expr, $align:expr, $lower:expr, $dealloc:expr, $lift:expr) => {{
        static V: StreamVtable<$t> = StreamVtable {
            layout: unsafe { Layout::from_size_align_unchecked($size, $align) },
            lower: $lower,
            dealloc_lists: $dealloc,
            lift: $lift,
            start_write: s_start_write,
            start_read: s_start_read,
            cancel_write: s_cancel_write,
            cancel_read: s_cancel_read,
            drop_writable: s_drop_writable,
            drop_readable: s_drop_readable,
            new: s_new,
        };
        &V
    }};
}
macro_rules! fvt {
    ($t:ty, $size:expr, $align:expr, $lower:expr, $dealloc:expr, $lift:expr) => {{
        static V: FutureVtable<$t> = FutureVtable {
            layout: unsafe { Layout::from_size_align_unchecked($size, $align) },
            lower: $lower,
            dealloc_lists: $dealloc,
            lift: $lift,
            start_write: f_start_write,
            start_read: f_start_read,
            cancel_write: f_cancel_write,
            cancel_read: f_cancel_read,
            drop_writable: f_drop_writable,
            drop_readable: f_drop_readable,
            new: f_new,
        };
        &V
    }};
}

unsafe fn b_lower(_v: u8, _dst: *mut u8) {
    ev("!u8-future-unsupported");
}
unsafe fn b_dealloc(_dst: *mut u8) {}
unsafe fn b_lift(_src: *mut u8) -> u8 {
    ev("!u8-future-unsupported");
    0
}

impl Payload for u8 {
    const KIND: Kind = Kind::B;
    fn make(_c: usize, id: u32) -> u8 {
        id as u8
    }
    fn id(&self) -> u32 {
        *self as u32
    }
    fn svt() -> &'static StreamVtable<u8> {
        svt!(u8, 1, 1, None, None, None)
    }
    fn fvt() -> &'static FutureVtable<u8> {
        fvt!(u8, 1, 1, b_lower, b_dealloc, b_lift)
    }
}

macro_rules! canonical_payload {
    ($t:ty, $kind:expr, $size:expr, $align:expr, $make:expr, $id:expr) => {
        impl Payload for $t {
            const KIND: Kind = $kind;
            fn make(c: usize, id: u32) -> $t {
                let f: fn(usize, u32) -> $t = $make;
                f(c, id)
            }
            fn id(&self) -> u32 {
                let f: fn(&$t) -> u32 = $id;
                f(self)
            }
            fn svt() -> &'static StreamVtable<$t> {
                svt!($t, $size, $align, None, None, None)
            }
            fn fvt() -> &'static FutureVtable<$t> {
                unsafe fn lo(_v: $t, _dst: *mut u8) {
                    ev("!canonical-future-unsupported");
                }
                unsafe fn de(_dst: *mut u8) {}
                unsafe fn li(_src: *mut u8) -> $t {
                    ev("!canonical-future-unsupported");
                    let f: fn(usize, u32) -> $t = $make;
                    f(0, 0)
                }
                fvt!($t, $size, $align, lo, de, li)
            }
        }
    };
}
/// an id that no item has: the value read back is not one the peer wrote
const GARBAGE: u32 = 0xffff_fff0;
canonical_payload!(u16, Kind::H, 2, 2, |_c, id| id as u16, |v| *v as u32);
canonical_payload!(u32, Kind::W, 4, 4, |_c, id| chan_host::w_value(id), |v| chan_host::w_id(*v).unwrap_or(GARBAGE));
canonical_payload!(u64, Kind::D, 8, 8, |_c, id| chan_host::d_value(id), |v| chan_host::d_id(*v).unwrap_or(GARBAGE));
canonical_payload!((u32, u32), Kind::T, 8, 4, |c, id| (chan_host::T_TAG + c as u32, id),
    |v| if v.0 & 0xffff_0000 == chan_host::T_TAG { v.1 } else { GARBAGE });

impl Payload for RItem {
    const KIND: Kind = Kind::R;
    fn make(c: usize, id: u32) -> RItem {
        created(c, id, Kind::R);
        RItem { c: c as u32, id }
    }
    fn id(&self) -> u32 {
        self.id
    }
    fn svt() -> &'static StreamVtable<RItem> {
        svt!(RItem, 8, 4, Some(r_lower), None, Some(r_lift))
    }
    fn fvt() -> &'static FutureVtable<RItem> {
        fvt!(RItem, 8, 4, r_lower, r_dealloc, r_lift)
    }
}

impl Payload for SItem {
    const KIND: Kind = Kind::S;
    fn make(c: usize, id: u32) -> SItem {
        created(c, id, Kind::S);
        SItem { c: c as u32, id, data: Some(data_of(c, id).into_boxed_slice()) }
    }
    fn id(&self) -> u32 {
        self.id
    }
    fn svt() -> &'static StreamVtable<SItem> {
        svt!(SItem, 16, 8, Some(s_lower), Some(s_dealloc), Some(s_lift))
    }
    fn fvt() -> &'static FutureVtable<SItem> {
        fvt!(SItem, 16, 8, s_lower, s_dealloc, s_lift)
    }
}

/// `default` constructors of futures: a plain `fn() -> T` has no context, so one monomorphic
/// function per channel index
pub fn default_fn<T: Payload>(c: usize) -> fn() -> T {
    fn d<T: Payload, const C: usize>() -> T {
        let id = LEDGER.with(|l| {
            let mut l = l.borrow_mut();
            l.defaults[C] += 1;
            899 + l.defaults[C]
        });
        let v = T::make(C, id);
        expect_slab(C, id);
        ev(&format!("def{C}:{id}"));
        v
    }
    match c {
        0 => d::<T, 0>,
        1 => d::<T, 1>,
        2 => d::<T, 2>,
        _ => d::<T, 3>,
    }
}

pub fn set_opening(c: usize) {
    LEDGER.with(|l| l.borrow_mut().opening = c);
}

/// end-of-script audit of the item ledger: anomalies (items lost or leaked)
pub fn audit() -> Vec<String> {
    let mut out = Vec::new();
    LEDGER.with(|l| {
        for (&(c, id), it) in l.borrow().items.iter() {
            let bad = match it.own {
                Own::Dropped => it.taken,
                Own::Released => !it.taken,
                Own::Rust => true,
                Own::Lowered(..) => !(it.kind == Kind::R && it.taken),
            };
            if bad {
                let own = match it.own {
                    Own::Rust => "rust",
                    Own::Lowered(..) => "lowered",
                    Own::Released => "released",
                    Own::Dropped => "dropped",
                };
                out.push(format!("!item-ledger{c}:{id}:{own}:{}", it.taken as u8));
            }
        }
    });
    out
}

/// release what a (possibly buggy / panicked) run left behind so that scripts are independent
pub fn cleanup() {
    LEDGER.with(|l| {
        let mut l = l.borrow_mut();
        for (_, it) in l.items.iter() {
            if let Own::Lowered(p, len) = it.own {
                if p != 0 && ca::is_live(p) == Some((len, 1)) {
                    unsafe { drop(Box::from_raw(std::ptr::slice_from_raw_parts_mut(p as *mut u8, len))) };
                }
            }
        }
        *l = Ledger::default();
    });
}
