#![allow(dead_code)]
//! Checking + counting global allocator (wraps `System`).
//!
//! * ledger of every live block `(ptr, size, align)` in a fixed open-addressing table
//!   (no allocation inside the allocator); `dealloc`/`realloc` of a block that is not live or
//!   whose layout differs from the one it was allocated with is recorded as a *contract error*
//!   (and the call is NOT forwarded for unknown pointers, so a double free cannot corrupt the
//!   heap of the harness);
//! * guard bytes: every block is over-allocated by `pad = max(align, 16)` on both sides (the interior pointer keeps
//!   the requested alignment, the size is NOT rounded up) and the 16 bytes before and after the block carry a
//!   canary pattern, verified at every `dealloc`/`realloc` and on demand (`guard_check`); a changed canary is the
//!   error `write-outside-allocation` with the offset of the first changed byte relative to the block;
//! * optional call log (fixed ring) so an engine can see exactly which `GlobalAlloc` calls the
//!   code under test made;
//! * watch list: a small set of pointers whose `dealloc` is counted (used to put `free<k>`
//!   entries into async traces at the position where the free happened).
use std::alloc::{GlobalAlloc, Layout, System};
use std::sync::atomic::{AtomicBool, Ordering};

pub struct Checking;

const CAP: usize = 1 << 20;
const MASK: usize = CAP - 1;

#[derive(Clone, Copy)]
struct Ent {
    ptr: usize, // 0 = empty
    size: usize,
    align: usize,
}

#[derive(Clone, Copy, Debug, PartialEq)]
pub enum Kind {
    Alloc,
    Realloc,
    Dealloc,
}

#[derive(Clone, Copy, Debug)]
pub struct Call {
    pub kind: Kind,
    pub ptr: usize,
    pub size: usize,
    pub align: usize,
    pub new_size: usize,
    pub ret: usize,
}

#[derive(Clone, Copy, Debug)]
pub struct ContractError {
    pub what: &'static str,
    pub ptr: usize,
    pub size: usize,
    pub align: usize,
    pub live_size: usize,
    pub live_align: usize,
    /// `write-outside-allocation`: offset of the first changed guard byte relative to the block start
    /// (negative: in front of the block; `>= size`: behind it)
    pub offset: isize,
}

impl ContractError {
    /// `what`, with the offset for guard violations (`write-outside-allocation@+17/size=17`)
    pub fn label(&self) -> String {
        if self.what == "write-outside-allocation" {
            format!("{}@{:+}/size={}", self.what, self.offset, self.live_size)
        } else {
            self.what.to_string()
        }
    }
}

#[derive(Clone, Copy)]
pub struct Watch {
    pub ptr: usize,
    pub id: u32,
    pub freed: u32,
    pub reported: u32,
    /// was the block completely 0xff when it was freed (Cleanup::drop poisons it)?
    pub poisoned: bool,
}

const LOG_CAP: usize = 256;
const WATCH_CAP: usize = 256;

struct State {
    table: [Ent; CAP],
    live_blocks: usize,
    live_bytes: usize,
    total_allocs: u64,
    errors: u32,
    first_error: Option<ContractError>,
    logging: bool,
    log: [Call; LOG_CAP],
    log_n: usize,
    log_overflow: bool,
    watch: [Watch; WATCH_CAP],
    watch_n: usize,
    overflowed: bool,
    /// make the next `n`-th allocation attempt fail (returns null) — allocator-failure scripts
    fail_in: usize,
}

static LOCK: AtomicBool = AtomicBool::new(false);
static mut ST: State = State {
    table: [Ent { ptr: 0, size: 0, align: 0 }; CAP],
    live_blocks: 0,
    live_bytes: 0,
    total_allocs: 0,
    errors: 0,
    first_error: None,
    logging: false,
    log: [Call { kind: Kind::Alloc, ptr: 0, size: 0, align: 0, new_size: 0, ret: 0 }; LOG_CAP],
    log_n: 0,
    log_overflow: false,
    watch: [Watch { ptr: 0, id: 0, freed: 0, reported: 0, poisoned: false }; WATCH_CAP],
    watch_n: 0,
    fail_in: 0,
    overflowed: false,
};

fn with<R>(f: impl FnOnce(&mut State) -> R) -> R {
    while LOCK.compare_exchange(false, true, Ordering::Acquire, Ordering::Relaxed).is_err() {
        std::hint::spin_loop();
    }
    #[allow(static_mut_refs)]
    let r = f(unsafe { &mut ST });
    LOCK.store(false, Ordering::Release);
    r
}

fn hash(ptr: usize) -> usize {
    ((ptr >> 3).wrapping_mul(0x9E37_79B9_7F4A_7C15)) >> 20 & MASK
}

impl State {
    fn find(&self, ptr: usize) -> Option<usize> {
        let mut i = hash(ptr);
        loop {
            let e = self.table[i];
            if e.ptr == 0 {
                return None;
            }
            if e.ptr == ptr {
                return Some(i);
            }
            i = (i + 1) & MASK;
        }
    }
    fn insert(&mut self, ptr: usize, size: usize, align: usize) {
        if self.live_blocks >= CAP / 2 {
            // never panic inside the allocator (the lock is held): stop tracking new blocks; frees of
            // untracked blocks are then forwarded unchecked (`overflowed`)
            self.overflowed = true;
            return;
        }
        let mut i = hash(ptr);
        while self.table[i].ptr != 0 {
            i = (i + 1) & MASK;
        }
        self.table[i] = Ent { ptr, size, align };
        self.live_blocks += 1;
        self.live_bytes += size;
        self.total_allocs += 1;
    }
    /// linear-probing deletion with backward shift (no tombstones)
    fn remove(&mut self, mut i: usize) {
        self.live_blocks -= 1;
        self.live_bytes -= self.table[i].size;
        self.table[i].ptr = 0;
        let mut j = i;
        loop {
            j = (j + 1) & MASK;
            let e = self.table[j];
            if e.ptr == 0 {
                return;
            }
            let k = hash(e.ptr);
            // is k cyclically in (i, j] ?  then the element may stay
            let stays = if i <= j { i < k && k <= j } else { i < k || k <= j };
            if !stays {
                self.table[i] = e;
                self.table[j].ptr = 0;
                i = j;
            }
        }
    }
    fn error(&mut self, what: &'static str, ptr: usize, l: Layout, live: Option<Ent>) {
        self.errors += 1;
        if self.first_error.is_none() {
            self.first_error = Some(ContractError {
                what,
                ptr,
                size: l.size(),
                align: l.align(),
                live_size: live.map(|e| e.size).unwrap_or(0),
                live_align: live.map(|e| e.align).unwrap_or(0),
                offset: 0,
            });
        }
    }
    fn push_log(&mut self, c: Call) {
        if !self.logging {
            return;
        }
        if self.log_n < LOG_CAP {
            self.log[self.log_n] = c;
            self.log_n += 1;
        } else {
            self.log_overflow = true;
        }
    }
    fn note_free(&mut self, ptr: usize, size: usize) {
        for w in self.watch[..self.watch_n].iter_mut() {
            if w.ptr == ptr && ptr != 0 {
                w.freed += 1;
                let mut all = size > 0;
                for k in 0..size {
                    if unsafe { *((ptr + k) as *const u8) } != 0xff {
                        all = false;
                        break;
                    }
                }
                w.poisoned = all;
                // stop watching: the address may be reused by an unrelated block; a second free
                // of the same (dead) pointer is reported as a `dealloc-not-live` contract error
                w.ptr = 0;
            }
        }
    }
    fn should_fail(&mut self) -> bool {
        if self.fail_in == 0 {
            return false;
        }
        self.fail_in -= 1;
        self.fail_in == 0
    }
}

const GUARD: usize = 16;
const CANARY: u8 = 0xC5;

/// padding on each side of a block: a multiple of the alignment, at least the guard width
fn pad(align: usize) -> usize {
    align.max(GUARD)
}
fn outer(size: usize, align: usize) -> Option<Layout> {
    let total = size.checked_add(2 * pad(align))?;
    Layout::from_size_align(total, align).ok()
}
unsafe fn paint(user: usize, size: usize) {
    unsafe {
        std::ptr::write_bytes((user - GUARD) as *mut u8, CANARY, GUARD);
        std::ptr::write_bytes((user + size) as *mut u8, CANARY, GUARD);
    }
}
/// offset (relative to the block) of the first guard byte that no longer holds the canary
unsafe fn guard_violation(user: usize, size: usize) -> Option<isize> {
    for k in 0..GUARD {
        if unsafe { *((user - GUARD + k) as *const u8) } != CANARY {
            return Some(k as isize - GUARD as isize);
        }
    }
    for k in 0..GUARD {
        if unsafe { *((user + size + k) as *const u8) } != CANARY {
            return Some((size + k) as isize);
        }
    }
    None
}

impl State {
    fn check_guards(&mut self, e: Ent) {
        if let Some(off) = unsafe { guard_violation(e.ptr, e.size) } {
            self.errors += 1;
            if self.first_error.is_none() {
                self.first_error = Some(ContractError {
                    what: "write-outside-allocation",
                    ptr: e.ptr,
                    size: e.size,
                    align: e.align,
                    live_size: e.size,
                    live_align: e.align,
                    offset: off,
                });
            }
        }
    }
}

unsafe impl GlobalAlloc for Checking {
    unsafe fn alloc(&self, l: Layout) -> *mut u8 {
        if with(|s| s.should_fail()) {
            with(|s| s.push_log(Call { kind: Kind::Alloc, ptr: 0, size: l.size(), align: l.align(), new_size: 0, ret: 0 }));
            return std::ptr::null_mut();
        }
        if l.size() == 0 {
            // GlobalAlloc contract violation by the caller: zero-sized allocation
            with(|s| s.error("alloc-zero-size", 0, l, None));
        }
        let Some(ol) = outer(l.size(), l.align()) else { return std::ptr::null_mut() };
        let base = unsafe { System.alloc(ol) };
        let p = if base.is_null() { base } else { unsafe { base.add(pad(l.align())) } };
        if !p.is_null() {
            unsafe { paint(p as usize, l.size()) };
        }
        with(|s| {
            if !p.is_null() {
                s.insert(p as usize, l.size(), l.align());
            }
            s.push_log(Call { kind: Kind::Alloc, ptr: 0, size: l.size(), align: l.align(), new_size: 0, ret: p as usize });
        });
        p
    }

    unsafe fn dealloc(&self, p: *mut u8, l: Layout) {
        // the layout the block was really allocated with (the ledger's; the caller's if it is not tracked)
        let real = with(|s| {
            s.push_log(Call { kind: Kind::Dealloc, ptr: p as usize, size: l.size(), align: l.align(), new_size: 0, ret: 0 });
            match s.find(p as usize) {
                None if s.overflowed => Some((l.size(), l.align())),
                None => {
                    s.error("dealloc-not-live", p as usize, l, None);
                    None
                }
                Some(i) => {
                    let e = s.table[i];
                    if e.size != l.size() || e.align != l.align() {
                        s.error("dealloc-layout-mismatch", p as usize, l, Some(e));
                    }
                    s.check_guards(e);
                    s.note_free(p as usize, e.size);
                    s.remove(i);
                    Some((e.size, e.align))
                }
            }
        });
        if let Some((size, align)) = real {
            if let Some(ol) = outer(size, align) {
                unsafe { System.dealloc(p.sub(pad(align)), ol) }
            }
        }
    }

    unsafe fn realloc(&self, p: *mut u8, l: Layout, new_size: usize) -> *mut u8 {
        let live = with(|s| match s.find(p as usize) {
            None if s.overflowed => None,
            None => {
                s.error("realloc-not-live", p as usize, l, None);
                None
            }
            Some(i) => {
                let e = s.table[i];
                if e.size != l.size() || e.align != l.align() {
                    s.error("realloc-layout-mismatch", p as usize, l, Some(e));
                }
                s.check_guards(e);
                Some((e.size, e.align))
            }
        });
        if new_size == 0 {
            with(|s| {
                s.error("realloc-zero-size", p as usize, l, None);
                s.push_log(Call { kind: Kind::Realloc, ptr: p as usize, size: l.size(), align: l.align(), new_size, ret: 0 });
            });
            return std::ptr::null_mut();
        }
        let grow = |size: usize, align: usize| -> *mut u8 {
            let (Some(ol), Some(nl)) = (outer(size, align), outer(new_size, align)) else { return std::ptr::null_mut() };
            let nb = unsafe { System.realloc(p.sub(pad(align)), ol, nl.size()) };
            if nb.is_null() {
                return nb;
            }
            let q = unsafe { nb.add(pad(align)) };
            unsafe { paint(q as usize, new_size) };
            q
        };
        if live.is_none() && with(|s| s.overflowed) {
            return grow(l.size(), l.align());
        }
        if live.is_none() || with(|s| s.should_fail()) {
            with(|s| s.push_log(Call { kind: Kind::Realloc, ptr: p as usize, size: l.size(), align: l.align(), new_size, ret: 0 }));
            return std::ptr::null_mut();
        }
        let (osize, oalign) = live.unwrap();
        let q = grow(osize, oalign);
        with(|s| {
            if !q.is_null() {
                let i = s.find(p as usize).unwrap();
                if q != p {
                    s.note_free(p as usize, 0);
                }
                s.remove(i);
                s.insert(q as usize, new_size, oalign);
            }
            s.push_log(Call { kind: Kind::Realloc, ptr: p as usize, size: l.size(), align: l.align(), new_size, ret: q as usize });
        });
        q
    }
}

// ------------------------------------------------------------------------------------ API

pub fn live() -> (usize, usize) {
    with(|s| (s.live_blocks, s.live_bytes))
}
pub fn is_live(ptr: usize) -> Option<(usize, usize)> {
    with(|s| s.find(ptr).map(|i| (s.table[i].size, s.table[i].align)))
}
/// the live block that contains `ptr` (or whose one-past-the-end `ptr` is): `(base, size)`; looks back at
/// most `max_back` bytes (buffers handed to the mock host are small)
pub fn containing(ptr: usize, max_back: usize) -> Option<(usize, usize)> {
    with(|s| {
        for back in 0..=max_back.min(ptr) {
            if let Some(i) = s.find(ptr - back) {
                let e = s.table[i];
                return if back <= e.size { Some((e.ptr, e.size)) } else { None };
            }
        }
        None
    })
}
/// verify the guard bytes of a live block now (records `write-outside-allocation` if they changed)
pub fn guard_check(ptr: usize) {
    with(|s| {
        if let Some(i) = s.find(ptr) {
            let e = s.table[i];
            s.check_guards(e);
        }
    })
}
pub fn errors() -> (u32, Option<ContractError>) {
    with(|s| (s.errors, s.first_error))
}
pub fn clear_errors() {
    with(|s| {
        s.errors = 0;
        s.first_error = None;
    })
}
pub fn start_log() {
    with(|s| {
        s.log_n = 0;
        s.log_overflow = false;
        s.logging = true;
    })
}
/// stop logging and copy the log out (allocates *after* logging was switched off)
pub fn stop_log() -> (Vec<Call>, bool) {
    let (n, of, buf) = with(|s| {
        s.logging = false;
        (s.log_n, s.log_overflow, s.log)
    });
    (buf[..n].to_vec(), of)
}
pub fn fail_in(n: usize) {
    with(|s| s.fail_in = n)
}
pub fn watch_clear() {
    with(|s| s.watch_n = 0)
}
pub fn watch(ptr: usize, id: u32) {
    with(|s| {
        assert!(s.watch_n < WATCH_CAP);
        s.watch[s.watch_n] = Watch { ptr, id, freed: 0, reported: 0, poisoned: false };
        s.watch_n += 1;
    })
}
/// ids (with the poisoned flag) of watched blocks freed since the last call, in table order
pub fn watch_take_freed() -> Vec<(u32, bool)> {
    let mut tmp = [(0u32, false); WATCH_CAP];
    let mut n = 0;
    with(|s| {
        for w in s.watch[..s.watch_n].iter_mut() {
            while w.reported < w.freed {
                w.reported += 1;
                tmp[n] = (w.id, w.poisoned);
                n += 1;
                if n == WATCH_CAP {
                    return;
                }
            }
        }
    });
    tmp[..n].to_vec()
}
