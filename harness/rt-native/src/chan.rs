//! Engine `chan` (C19/C20): stream and future operations of the real runtime against the scripted
//! peer of chan_host.rs.  Line = `<mode> | <channel decls> | <body> | <host directives>`
//!
//!   mode     cabi1 | cabi2 (the harness is the executor, as in script.rs) | export (real executor)
//!   decl     <S|F><W|R><b|r|s><cx>[A]   stream/future, guest holds the Writable/Readable end, payload
//!            kind (chan_host::Kind), the peer's answer to a cancel race (0..4), A = the reader is
//!            wrapped in the `futures::Stream` adapter (feature build `futures-stream` only)
//!   body     o<c> open            w<c>:<n> `write(n fresh items)`     b<c> `write_buf(kept buffer)`
//!            v<c> kept `into_vec`  W<c>:<n> `write_all`   O<c> `write_one`
//!            r<c>:<n> `read(Vec::with_capacity(n))`   n<c> `next()` (adapter: `poll_next`)   C<c> `collect()`
//!            f<c> future `write(fresh value)` / `into_future()`
//!            p<c> poll the channel's operation once    a<c> await it    x<c> `cancel()`    d<c> drop it
//!            e<c> drop the channel's end (operation and kept buffer first)
//!            z suspend (Pending, no wake)   y `yield_async().await`   t<n> continue under harness task n
//!   host     T<c>:<m> peer transfers up to m items (reads from a guest writer / writes to a guest reader)
//!            P<c> peer drops its end      D<c> deliver the pending event of channel c's end
//! After the body is gone (finished, or dropped by the task cancel `X`) remaining directives still run
//! while something is registered (background default writes of futures), then the peer completes
//! whatever is left (`drain`).
use crate::alloc_check as ca;
use crate::chan_host::{self, Kind};
use crate::host::{self, EVENT_CANCEL, EVENT_NONE};
use crate::payload::{self, Payload, RItem, SItem};
use crate::script::{self, Flag, Suspend, Wasip3Task, Wasip3TaskV2, TASKS, TASK_PTRS, VTABLE};
use crate::trace::{self, ev};
use std::ffi::c_void;
use std::future::{Future, IntoFuture};
use std::pin::Pin;
use std::sync::atomic::{AtomicBool, Ordering};
use std::sync::Arc;
use std::task::{Context, Poll, Waker};
use wit_bindgen::rt::async_support::{
    future_new, stream_new, AbiBuffer, FutureRead, FutureReader, FutureWrite, FutureWriteCancel, FutureWriter, StreamRead,
    StreamReader, StreamResult, StreamVtable, StreamWrite, StreamWriter,
};
#[cfg(feature = "futures-stream")]
use wit_bindgen::rt::async_support::StreamReaderStream;

#[derive(Clone, Copy, Debug)]
struct Decl {
    fut: bool,
    gw: bool,
    kind: Kind,
    cx: u32,
    adapter: bool,
}

#[derive(Clone, Copy, Debug)]
enum Instr {
    Open(usize),
    Write(usize, usize),
    Resume(usize),
    IntoVec(usize),
    WriteAll(usize, usize),
    WriteOne(usize),
    Read(usize, usize),
    Next(usize),
    Collect(usize),
    Fut(usize),
    Poll(usize),
    Await(usize),
    Cancel(usize),
    DropOp(usize),
    DropEnd(usize),
    Suspend,
    Yield,
    Task(usize),
}

#[derive(Clone, Copy, Debug)]
enum Dir {
    Xfer(usize, usize),
    PeerDrop(usize),
    Dlv(usize),
}

#[derive(Clone, Copy, PartialEq, Debug)]
enum Mode {
    Cabi(u32),
    Export,
}

struct Script {
    mode: Mode,
    decls: Vec<Decl>,
    body: Vec<Instr>,
    dirs: Vec<Dir>,
}

fn parse(line: &str) -> Option<Script> {
    let secs: Vec<&str> = line.split('|').map(|s| s.trim()).collect();
    if secs.len() != 4 {
        return None;
    }
    let mode = match secs[0] {
        "cabi1" => Mode::Cabi(1),
        "cabi2" => Mode::Cabi(2),
        "export" => Mode::Export,
        _ => return None,
    };
    let mut decls = Vec::new();
    for t in secs[1].split_whitespace() {
        let b = t.as_bytes();
        if b.len() < 4 || b.len() > 5 {
            return None;
        }
        let fut = match b[0] {
            b'S' => false,
            b'F' => true,
            _ => return None,
        };
        let gw = match b[1] {
            b'W' => true,
            b'R' => false,
            _ => return None,
        };
        let kind = match b[2] {
            b'b' => Kind::B,
            b'h' => Kind::H,
            b'w' => Kind::W,
            b'd' => Kind::D,
            b't' => Kind::T,
            b'r' => Kind::R,
            b's' => Kind::S,
            _ => return None,
        };
        if fut && !kind.lowers() {
            return None;
        }
        let cx = (b[3] as char).to_digit(10).filter(|d| *d <= 4)?;
        let adapter = b.len() == 5;
        if adapter && (b[4] != b'A' || fut || gw || !cfg!(feature = "futures-stream")) {
            return None;
        }
        decls.push(Decl { fut, gw, kind, cx, adapter });
    }
    let n = decls.len();
    if n == 0 || n > 4 {
        return None;
    }
    let idx = |s: &str| -> Option<usize> { s.parse::<usize>().ok().filter(|k| *k < n) };
    let two = |s: &str| -> Option<(usize, usize)> {
        let (a, b) = s.split_once(':')?;
        Some((idx(a)?, b.parse::<usize>().ok().filter(|m| *m <= 64)?))
    };
    let mut body = Vec::new();
    for t in secs[2].split_whitespace() {
        let (op, arg) = t.split_at(1);
        body.push(match op {
            "o" => Instr::Open(idx(arg)?),
            "w" => {
                let (c, m) = two(arg)?;
                Instr::Write(c, m)
            }
            "b" => Instr::Resume(idx(arg)?),
            "v" => Instr::IntoVec(idx(arg)?),
            "W" => {
                let (c, m) = two(arg)?;
                Instr::WriteAll(c, m)
            }
            "O" => Instr::WriteOne(idx(arg)?),
            "r" => {
                let (c, m) = two(arg)?;
                Instr::Read(c, m)
            }
            "n" => Instr::Next(idx(arg)?),
            "C" => Instr::Collect(idx(arg)?),
            "f" => Instr::Fut(idx(arg)?),
            "p" => Instr::Poll(idx(arg)?),
            "a" => Instr::Await(idx(arg)?),
            "x" => Instr::Cancel(idx(arg)?),
            "d" => Instr::DropOp(idx(arg)?),
            "e" => Instr::DropEnd(idx(arg)?),
            "z" if arg.is_empty() => Instr::Suspend,
            "y" if arg.is_empty() => Instr::Yield,
            "t" => Instr::Task(arg.parse::<usize>().ok().filter(|n| *n == 1 || *n == 2)?),
            _ => return None,
        });
    }
    let mut dirs = Vec::new();
    for t in secs[3].split_whitespace() {
        let (op, arg) = t.split_at(1);
        dirs.push(match op {
            "T" => {
                let (c, m) = two(arg)?;
                if m == 0 {
                    return None;
                }
                Dir::Xfer(c, m)
            }
            "P" => Dir::PeerDrop(idx(arg)?),
            "D" => Dir::Dlv(idx(arg)?),
            _ => return None,
        });
    }
    Some(Script { mode, decls, body, dirs })
}

// ------------------------------------------------------------------------- one channel's guest side

type Svt<T> = &'static StreamVtable<T>;

enum Act<T: Payload> {
    None,
    SWrite(Pin<Box<StreamWrite<'static, T>>>),
    SRead(Pin<Box<StreamRead<'static, T>>>),
    All(Pin<Box<dyn Future<Output = Vec<T>>>>),
    One(Pin<Box<dyn Future<Output = Option<T>>>>),
    Next(Pin<Box<dyn Future<Output = Option<T>>>>),
    Collect(Pin<Box<dyn Future<Output = Vec<T>>>>),
    /// `poll_next` of the `futures::Stream` adapter (the read lives inside the adapter)
    AdNext,
    FWrite(Pin<Box<FutureWrite<T>>>),
    FRead(Pin<Box<FutureRead<T>>>),
}

struct Chan<T: Payload> {
    c: usize,
    decl: Decl,
    opened: bool,
    next_id: u32,
    // field order = drop order (see `close`, which drops explicitly)
    act: Act<T>,
    kept: Option<AbiBuffer<Svt<T>>>,
    sw: Option<Box<StreamWriter<T>>>,
    sr: Option<Box<StreamReader<T>>>,
    #[cfg(feature = "futures-stream")]
    ad: Option<StreamReaderStream<T>>,
    fw: Option<FutureWriter<T>>,
    fr: Option<FutureReader<T>>,
}

fn ids<T: Payload>(v: &[T]) -> String {
    let mut s = String::new();
    for x in v {
        s.push_str(&format!(":{}", x.id()));
    }
    s
}

fn rc(r: StreamResult) -> (u32, usize) {
    match r {
        StreamResult::Complete(k) => (0, k),
        StreamResult::Dropped => (1, 0),
        StreamResult::Cancelled => (2, 0),
    }
}

trait ChanDyn {
    /// run one non-suspending instruction or one poll; `true` = the polled operation is still pending
    fn exec(&mut self, i: Instr, cx: &mut Context<'_>) -> bool;
    /// end of the body / `e<c>`: operation, kept buffer, end(s)
    fn close(&mut self, explicit: bool);
}

impl<T: Payload> Chan<T> {
    fn new(c: usize, decl: Decl) -> Self {
        Chan {
            c,
            decl,
            opened: false,
            next_id: 1,
            act: Act::None,
            kept: None,
            sw: None,
            sr: None,
            #[cfg(feature = "futures-stream")]
            ad: None,
            fw: None,
            fr: None,
        }
    }

    fn idle(&self) -> bool {
        matches!(self.act, Act::None)
    }

    fn fresh(&mut self, n: usize) -> (u32, Vec<T>) {
        let first = self.next_id;
        let v: Vec<T> = (0..n).map(|i| T::make(self.c, first + i as u32)).collect();
        self.next_id += n as u32;
        (first, v)
    }

    fn writer(&mut self) -> &'static mut StreamWriter<T> {
        // SAFETY: the boxed writer outlives every operation stored in `act` (`close` drops `act` first)
        unsafe { &mut *(&mut **self.sw.as_mut().unwrap() as *mut StreamWriter<T>) }
    }
    fn reader(&mut self) -> &'static mut StreamReader<T> {
        unsafe { &mut *(&mut **self.sr.as_mut().unwrap() as *mut StreamReader<T>) }
    }

    fn skip(&self) -> bool {
        ev(&format!("skip{}", self.c));
        false
    }

    fn open(&mut self) {
        let c = self.c;
        ev(&format!("open{c}"));
        self.opened = true;
        payload::set_opening(c);
        match (self.decl.fut, self.decl.gw) {
            (false, true) => {
                let (w, r) = unsafe { stream_new::<T>(T::svt()) };
                chan_host::moved(r.take_handle());
                drop(r);
                self.sw = Some(Box::new(w));
            }
            (false, false) => {
                let h = chan_host::give(c);
                let r = StreamReader::new(h, T::svt());
                #[cfg(feature = "futures-stream")]
                if self.decl.adapter {
                    self.ad = Some(r.into_stream());
                    return;
                }
                self.sr = Some(Box::new(r));
            }
            (true, true) => {
                let (w, r) = unsafe { future_new::<T>(payload::default_fn::<T>(c), T::fvt()) };
                chan_host::moved(r.take_handle());
                drop(r);
                self.fw = Some(w);
            }
            (true, false) => {
                let h = chan_host::give(c);
                self.fr = Some(unsafe { FutureReader::new(h, T::fvt()) });
            }
        }
    }

    fn write_result(&mut self, res: StreamResult, buf: AbiBuffer<Svt<T>>) {
        let (code, k) = rc(res);
        ev(&format!("wres{}:{code}:{k}:{}", self.c, buf.remaining()));
        self.kept = Some(buf);
    }
    fn read_result(&mut self, res: StreamResult, buf: Vec<T>) {
        let (code, k) = rc(res);
        ev(&format!("rres{}:{code}:{k}{}", self.c, ids(&buf)));
        drop(buf);
    }

    /// one poll of the channel's operation; `true` = pending
    fn poll(&mut self, cx: &mut Context<'_>) -> bool {
        let c = self.c;
        macro_rules! done {
            () => {{
                ev(&format!("P{c}=ready"));
                self.act = Act::None;
            }};
        }
        match &mut self.act {
            Act::None => {
                ev(&format!("P{c}=none"));
                false
            }
            Act::SWrite(f) => match f.as_mut().poll(cx) {
                Poll::Pending => true,
                Poll::Ready((res, buf)) => {
                    done!();
                    self.write_result(res, buf);
                    false
                }
            },
            Act::SRead(f) => match f.as_mut().poll(cx) {
                Poll::Pending => true,
                Poll::Ready((res, buf)) => {
                    done!();
                    self.read_result(res, buf);
                    false
                }
            },
            Act::All(f) => match f.as_mut().poll(cx) {
                Poll::Pending => true,
                Poll::Ready(v) => {
                    done!();
                    ev(&format!("wares{c}{}", ids(&v)));
                    drop(v);
                    false
                }
            },
            Act::One(f) => match f.as_mut().poll(cx) {
                Poll::Pending => true,
                Poll::Ready(v) => {
                    done!();
                    ev(&format!("wores{c}{}", ids(v.as_slice())));
                    drop(v);
                    false
                }
            },
            Act::Next(f) => match f.as_mut().poll(cx) {
                Poll::Pending => true,
                Poll::Ready(v) => {
                    done!();
                    ev(&format!("nxres{c}{}", ids(v.as_slice())));
                    drop(v);
                    false
                }
            },
            Act::Collect(f) => match f.as_mut().poll(cx) {
                Poll::Pending => true,
                Poll::Ready(v) => {
                    done!();
                    ev(&format!("cores{c}{}", ids(&v)));
                    drop(v);
                    false
                }
            },
            Act::AdNext => {
                #[cfg(feature = "futures-stream")]
                {
                    use futures_core::Stream;
                    let r = match self.ad.as_mut() {
                        Some(ad) => Pin::new(ad).poll_next(cx),
                        None => Poll::Ready(None),
                    };
                    return match r {
                        Poll::Pending => true,
                        Poll::Ready(v) => {
                            done!();
                            ev(&format!("nxres{c}{}", ids(v.as_slice())));
                            drop(v);
                            false
                        }
                    };
                }
                #[allow(unreachable_code)]
                {
                    let _ = cx;
                    false
                }
            }
            Act::FWrite(f) => match f.as_mut().poll(cx) {
                Poll::Pending => true,
                Poll::Ready(r) => {
                    done!();
                    match r {
                        Ok(()) => ev(&format!("fwres{c}:0")),
                        Err(e) => {
                            ev(&format!("fwres{c}:1:{}", e.value.id()));
                            drop(e);
                        }
                    }
                    false
                }
            },
            Act::FRead(f) => match f.as_mut().poll(cx) {
                Poll::Pending => true,
                Poll::Ready(v) => {
                    done!();
                    ev(&format!("frres{c}:{}", v.id()));
                    drop(v);
                    false
                }
            },
        }
    }

    fn cancel(&mut self) -> bool {
        let c = self.c;
        match std::mem::replace(&mut self.act, Act::None) {
            Act::SWrite(mut f) => {
                ev(&format!("ix{c}"));
                let (res, buf) = f.as_mut().cancel();
                drop(f);
                self.write_result(res, buf);
            }
            Act::SRead(mut f) => {
                ev(&format!("ix{c}"));
                let (res, buf) = f.as_mut().cancel();
                drop(f);
                self.read_result(res, buf);
            }
            Act::FWrite(mut f) => {
                ev(&format!("ix{c}"));
                let r = f.as_mut().cancel();
                drop(f);
                match r {
                    FutureWriteCancel::AlreadySent => ev(&format!("fwc{c}:0")),
                    FutureWriteCancel::Dropped(v) => {
                        ev(&format!("fwc{c}:1:{}", v.id()));
                        drop(v);
                    }
                    FutureWriteCancel::Cancelled(v, w) => {
                        ev(&format!("fwc{c}:2:{}", v.id()));
                        self.fw = Some(w);
                        drop(v);
                    }
                }
            }
            Act::FRead(mut f) => {
                ev(&format!("ix{c}"));
                let r = f.as_mut().cancel();
                drop(f);
                match r {
                    Ok(v) => {
                        ev(&format!("frc{c}:0:{}", v.id()));
                        drop(v);
                    }
                    Err(rd) => {
                        ev(&format!("frc{c}:1"));
                        self.fr = Some(rd);
                    }
                }
            }
            other => {
                self.act = other;
                return self.skip();
            }
        }
        false
    }
}

impl<T: Payload> ChanDyn for Chan<T> {
    fn exec(&mut self, i: Instr, cx: &mut Context<'_>) -> bool {
        let c = self.c;
        let d = self.decl;
        match i {
            Instr::Open(_) => {
                if self.opened {
                    return self.skip();
                }
                self.open();
                false
            }
            Instr::Write(_, n) | Instr::WriteAll(_, n) => {
                if self.sw.is_none() || !self.idle() {
                    return self.skip();
                }
                let all = matches!(i, Instr::WriteAll(..));
                let first = self.next_id;
                self.kept = None;
                ev(&format!("{}{c}:{first}:{n}", if all { "iwa" } else { "iw" }));
                let (_, v) = self.fresh(n);
                if T::KIND.lowers() && n > 0 {
                    payload::expect_slab(c, first);
                }
                let w = self.writer();
                self.act = if all { Act::All(Box::pin(w.write_all(v))) } else { Act::SWrite(Box::pin(w.write(v))) };
                false
            }
            Instr::WriteOne(_) => {
                if self.sw.is_none() || !self.idle() {
                    return self.skip();
                }
                let first = self.next_id;
                self.kept = None;
                ev(&format!("iwo{c}:{first}"));
                let (_, mut v) = self.fresh(1);
                if T::KIND.lowers() {
                    payload::expect_slab(c, first);
                }
                let w = self.writer();
                self.act = Act::One(Box::pin(w.write_one(v.pop().unwrap())));
                false
            }
            Instr::Resume(_) => {
                if self.sw.is_none() || !self.idle() || self.kept.is_none() {
                    return self.skip();
                }
                ev(&format!("ib{c}"));
                let buf = self.kept.take().unwrap();
                let w = self.writer();
                self.act = Act::SWrite(Box::pin(w.write_buf(buf)));
                false
            }
            Instr::IntoVec(_) => {
                let Some(buf) = self.kept.take() else { return self.skip() };
                ev(&format!("iv{c}"));
                let v = buf.into_vec();
                ev(&format!("ivres{c}{}", ids(&v)));
                drop(v);
                false
            }
            Instr::Read(_, n) => {
                if self.sr.is_none() || !self.idle() {
                    return self.skip();
                }
                ev(&format!("ir{c}:{n}"));
                let buf: Vec<T> = Vec::with_capacity(n);
                if buf.capacity() != n {
                    ev("!capacity");
                }
                let r = self.reader();
                self.act = Act::SRead(Box::pin(r.read(buf)));
                false
            }
            Instr::Next(_) => {
                if !self.idle() {
                    return self.skip();
                }
                #[cfg(feature = "futures-stream")]
                if self.ad.is_some() {
                    ev(&format!("inx{c}"));
                    self.act = Act::AdNext;
                    return false;
                }
                if self.sr.is_none() {
                    return self.skip();
                }
                ev(&format!("inx{c}"));
                let r = self.reader();
                self.act = Act::Next(Box::pin(r.next()));
                false
            }
            Instr::Collect(_) => {
                if self.sr.is_none() || !self.idle() {
                    return self.skip();
                }
                ev(&format!("ico{c}"));
                let r = *self.sr.take().unwrap();
                self.act = Act::Collect(Box::pin(r.collect()));
                false
            }
            Instr::Fut(_) => {
                if !self.idle() || !d.fut {
                    return self.skip();
                }
                if d.gw {
                    let Some(w) = self.fw.take() else { return self.skip() };
                    let first = self.next_id;
                    ev(&format!("ifw{c}:{first}"));
                    let (_, mut v) = self.fresh(1);
                    payload::expect_slab(c, first);
                    self.act = Act::FWrite(Box::pin(w.write(v.pop().unwrap())));
                } else {
                    let Some(r) = self.fr.take() else { return self.skip() };
                    ev(&format!("ifr{c}"));
                    self.act = Act::FRead(Box::pin(r.into_future()));
                }
                false
            }
            Instr::Poll(_) | Instr::Await(_) => {
                let pending = self.poll(cx);
                if pending {
                    ev(&format!("P{c}=pend"));
                }
                pending
            }
            Instr::Cancel(_) => self.cancel(),
            Instr::DropOp(_) => {
                match std::mem::replace(&mut self.act, Act::None) {
                    Act::None => ev(&format!("drop{c}:none")),
                    // the adapter's `Next` future only borrows the adapter: the read lives on inside it
                    Act::AdNext => {
                        self.act = Act::AdNext;
                        return self.skip();
                    }
                    other => {
                        ev(&format!("drop{c}"));
                        drop(other);
                    }
                }
                false
            }
            Instr::DropEnd(_) => {
                self.close(true);
                false
            }
            Instr::Suspend | Instr::Yield | Instr::Task(_) => false,
        }
    }

    fn close(&mut self, explicit: bool) {
        let c = self.c;
        #[allow(unused_mut)]
        let mut any = !self.idle() || self.kept.is_some() || self.sw.is_some() || self.sr.is_some() || self.fw.is_some() || self.fr.is_some();
        #[cfg(feature = "futures-stream")]
        {
            any = any || self.ad.is_some();
        }
        if explicit {
            if !any {
                self.skip();
                return;
            }
            ev(&format!("ie{c}"));
        }
        match std::mem::replace(&mut self.act, Act::None) {
            Act::None => {}
            other => {
                ev(&format!("edrop{c}"));
                drop(other);
            }
        }
        self.kept = None;
        self.sw = None;
        self.sr = None;
        #[cfg(feature = "futures-stream")]
        {
            self.ad = None;
        }
        self.fw = None;
        self.fr = None;
    }
}

impl<T: Payload> Drop for Chan<T> {
    fn drop(&mut self) {
        self.close(false);
    }
}

fn mk_chan(c: usize, d: Decl) -> Box<dyn ChanDyn> {
    match d.kind {
        Kind::B => Box::new(Chan::<u8>::new(c, d)),
        Kind::H => Box::new(Chan::<u16>::new(c, d)),
        Kind::W => Box::new(Chan::<u32>::new(c, d)),
        Kind::D => Box::new(Chan::<u64>::new(c, d)),
        Kind::T => Box::new(Chan::<(u32, u32)>::new(c, d)),
        Kind::R => Box::new(Chan::<RItem>::new(c, d)),
        Kind::S => Box::new(Chan::<SItem>::new(c, d)),
    }
}

fn chan_of(i: Instr) -> Option<usize> {
    Some(match i {
        Instr::Open(c) | Instr::Write(c, _) | Instr::Resume(c) | Instr::IntoVec(c) | Instr::WriteAll(c, _) | Instr::WriteOne(c)
        | Instr::Read(c, _) | Instr::Next(c) | Instr::Collect(c) | Instr::Fut(c) | Instr::Poll(c) | Instr::Await(c)
        | Instr::Cancel(c) | Instr::DropOp(c) | Instr::DropEnd(c) => c,
        Instr::Suspend | Instr::Yield | Instr::Task(_) => return None,
    })
}

static BODY_DONE: AtomicBool = AtomicBool::new(false);

async fn body(instrs: Vec<Instr>, decls: Vec<Decl>) {
    let mut chans: Vec<Box<dyn ChanDyn>> = decls.iter().enumerate().map(|(c, d)| mk_chan(c, *d)).collect();
    for i in instrs {
        match i {
            Instr::Suspend => {
                ev("w");
                Suspend(false).await
            }
            Instr::Yield => {
                ev("y");
                wit_bindgen::yield_async().await
            }
            Instr::Task(n) => {
                let p = TASK_PTRS.with(|t| t.borrow()[n]);
                if p == 0 {
                    ev(&format!("task{n}:skip"));
                } else {
                    ev(&format!("task{n}"));
                    unsafe { host::wasip3_task_set(p as *mut c_void) };
                }
            }
            Instr::Await(c) => loop {
                let pending = std::future::poll_fn(|cx| Poll::Ready(chans[c].exec(i, cx))).await;
                if !pending {
                    break;
                }
                Suspend(false).await;
            },
            _ => {
                let c = chan_of(i).unwrap();
                std::future::poll_fn(|cx| Poll::Ready(chans[c].exec(i, cx))).await;
            }
        }
    }
    drop(chans);
    ev("fin");
}

// ------------------------------------------------------------------------- host directives

/// the task (lowest id first) whose map holds a registration for waitable `h`
fn holder(h: u32) -> Option<usize> {
    TASKS.with(|m| m.borrow().maps.iter().find(|(_, m)| m.contains_key(&h)).map(|(t, _)| *t))
}

fn registrations() -> usize {
    TASKS.with(|m| m.borrow().maps.values().map(|m| m.len()).sum())
}

/// deliver the pending event of channel `c`'s guest end through the harness executor; true = delivered
fn deliver_cabi(c: usize) -> bool {
    let h = chan_host::snapshot(c).handle;
    match holder(h) {
        Some(tid) if h != 0 && host::has_event(h) => {
            let (_e, code) = host::take_event(h).unwrap();
            let (cb, p) = TASKS.with(|m| m.borrow_mut().maps.get_mut(&tid).unwrap().remove(&h).unwrap());
            ev(&format!("dlv({h},{code})"));
            unsafe { cb(p as *mut c_void, code) };
            true
        }
        _ => {
            ev(&format!("dlv{c}:skip"));
            false
        }
    }
}

/// run directives until one delivers an event (cabi modes)
fn run_dirs_cabi(dirs: &mut std::slice::Iter<'_, Dir>) -> bool {
    for d in dirs.by_ref() {
        match *d {
            Dir::Xfer(c, m) => chan_host::peer_transfer(c, m),
            Dir::PeerDrop(c) => chan_host::peer_drop(c),
            Dir::Dlv(c) => {
                if deliver_cabi(c) {
                    return true;
                }
            }
        }
    }
    false
}

fn run_cabi(version: u32, s: &Script) {
    let mk = |tid: usize| Wasip3TaskV2 {
        v1: Wasip3Task { version, ptr: tid as *mut c_void, waitable_register: script::t_register, waitable_unregister: script::t_unregister },
        vtable: &VTABLE,
    };
    let mut task1 = mk(1);
    let mut task2 = mk(2);
    let p1 = &mut task1 as *mut Wasip3TaskV2 as usize;
    let p2 = &mut task2 as *mut Wasip3TaskV2 as usize;
    TASK_PTRS.with(|t| *t.borrow_mut() = [0, p1, p2]);
    let prev = unsafe { host::wasip3_task_set(p1 as *mut c_void) };
    let flag = Arc::new(Flag(AtomicBool::new(false)));
    let waker: Waker = flag.clone().into();
    let mut cx = Context::from_waker(&waker);
    let mut fut: Option<Pin<Box<dyn Future<Output = ()>>>> = Some(Box::pin(body(s.body.clone(), s.decls.clone())));
    let mut dirs = s.dirs.iter();
    let mut aborted = false;
    loop {
        flag.0.store(false, Ordering::Relaxed);
        if fut.as_mut().unwrap().as_mut().poll(&mut cx).is_ready() {
            break;
        }
        if host::HOST.with(|h| h.borrow().trapped) {
            ev("abort");
            aborted = true;
            break;
        }
        if flag.0.load(Ordering::Relaxed) {
            ev("woken");
            continue;
        }
        if !run_dirs_cabi(&mut dirs) {
            // the host cancels the task: Rust maps cancellation to destruction
            ev("X");
            break;
        }
    }
    drop(fut.take());
    // background operations (default writes of dropped future writers) are still registered:
    // the remaining directives run, then the peer completes what is left
    if !aborted {
        while registrations() != 0 && !host::HOST.with(|h| h.borrow().trapped) {
            if !run_dirs_cabi(&mut dirs) {
                break;
            }
        }
        let mut progress = true;
        while registrations() != 0 && progress && !host::HOST.with(|h| h.borrow().trapped) {
            progress = false;
            for c in 0..s.decls.len() {
                let x = chan_host::snapshot(c);
                if x.handle != 0 && !x.gone && holder(x.handle).is_some() {
                    ev(&format!("drain{c}"));
                    if !host::has_event(x.handle) {
                        chan_host::peer_transfer(c, 64);
                    }
                    if deliver_cabi(c) {
                        progress = true;
                    }
                }
            }
        }
    }
    let left = registrations();
    if left != 0 {
        ev(&format!("!registrations-left:{left}"));
    }
    let clones: i64 = TASKS.with(|m| m.borrow().clones.values().map(|c| c.abs()).sum());
    if clones != 0 {
        ev(&format!("!task-clones-left:{clones}"));
    }
    TASK_PTRS.with(|t| *t.borrow_mut() = [0; 3]);
    unsafe { host::wasip3_task_set(prev) };
}

// ------------------------------------------------------------------------- the real executor

fn run_export(s: &Script) {
    use wit_bindgen::rt::async_support::{callback, start_task};
    let show = |code: u32| match code & 0xf {
        0 => ev("cb=exit"),
        1 => ev("cb=yield"),
        2 => ev(&format!("cb=wait:{}", code >> 4)),
        _ => ev(&format!("!cb-unknown:{code}")),
    };
    BODY_DONE.store(false, Ordering::Relaxed);
    let decls = s.decls.clone();
    let instrs = s.body.clone();
    ev("ev(start)");
    let mut code = start_task(async move {
        body(instrs, decls).await;
        BODY_DONE.store(true, Ordering::Relaxed);
    }) as u32;
    show(code);
    let mut dirs = s.dirs.iter();
    let mut fuel = 10_000;
    loop {
        fuel -= 1;
        if fuel == 0 {
            ev("!livelock");
            break;
        }
        if host::HOST.with(|h| h.borrow().trapped) {
            ev("abort");
            break;
        }
        match code & 0xf {
            0 => break,
            1 => {
                ev("ev(0,0,0)");
                code = unsafe { callback(EVENT_NONE, 0, 0) };
                show(code);
            }
            2 => {
                let set = code >> 4;
                let mut delivered = false;
                let mut try_deliver = |c: usize, code: &mut u32| -> bool {
                    let h = chan_host::snapshot(c).handle;
                    if h != 0 && host::set_of(h) == set && host::has_event(h) {
                        let (e, p) = host::take_event(h).unwrap();
                        ev(&format!("ev({e},{h},{p})"));
                        *code = unsafe { callback(e, h, p) };
                        show(*code);
                        true
                    } else {
                        ev(&format!("dlv{c}:skip"));
                        false
                    }
                };
                for d in dirs.by_ref() {
                    match *d {
                        Dir::Xfer(c, m) => chan_host::peer_transfer(c, m),
                        Dir::PeerDrop(c) => chan_host::peer_drop(c),
                        Dir::Dlv(c) => {
                            if try_deliver(c, &mut code) {
                                delivered = true;
                                break;
                            }
                        }
                    }
                }
                if !delivered && BODY_DONE.load(Ordering::Relaxed) {
                    // only background writes are left: the peer completes them
                    for c in 0..s.decls.len() {
                        let x = chan_host::snapshot(c);
                        if x.handle != 0 && !x.gone && host::set_of(x.handle) == set {
                            ev(&format!("drain{c}"));
                            if !host::has_event(x.handle) {
                                chan_host::peer_transfer(c, 64);
                            }
                            if try_deliver(c, &mut code) {
                                delivered = true;
                                break;
                            }
                        }
                    }
                }
                if !delivered {
                    ev("X");
                    ev(&format!("ev({EVENT_CANCEL},0,0)"));
                    code = unsafe { callback(EVENT_CANCEL, 0, 0) };
                    show(code);
                }
            }
            _ => break,
        }
    }
    let (sets, ends, ctx) = host::HOST.with(|h| {
        let h = h.borrow();
        (h.sets.len(), h.ends.len(), h.ctx0)
    });
    if code & 0xf == 0 && (sets != 0 || ctx != 0) {
        ev(&format!("!host-leftovers:sets={sets}/ends={ends}/ctx={}", (ctx != 0) as u8));
    }
}

// -------------------------------------------------------------------------

fn run(s: &Script) {
    let r = std::panic::catch_unwind(std::panic::AssertUnwindSafe(|| match s.mode {
        Mode::Cabi(v) => run_cabi(v, s),
        Mode::Export => run_export(s),
    }));
    if r.is_err() {
        ev("panic");
        return;
    }
    if host::HOST.with(|h| h.borrow().trapped) {
        return;
    }
    for a in chan_host::audit().into_iter().chain(payload::audit()) {
        ev(&a);
    }
}

pub fn handle(line: &str) -> String {
    trace::reset();
    host::reset(0);
    chan_host::clear();
    payload::cleanup();
    TASKS.with(|m| *m.borrow_mut() = Default::default());
    ca::clear_errors();
    let base = ca::live().0;
    // `@panic` marks the point where a Rust panic starts; what follows up to `panic` is unwinding
    // (the checks judge the trace up to that point)
    trace::mark_panics(true);
    let ok = inner(line);
    trace::mark_panics(false);
    let leak = ca::live().0 as i64 - base as i64;
    if !ok {
        return "bad-script".into();
    }
    let (errs, first) = ca::errors();
    let panic_msg = trace::take_panic();
    let mut out = trace::take();
    let panicked = out.split(' ').any(|t| t == "panic");
    let detail = match first {
        Some(e) if errs > 0 => format!(":{}", e.what),
        _ => String::new(),
    };
    if panicked {
        out.push_str(&format!(" end:?:{errs}{detail}\t{panic_msg}"));
    } else {
        out.push_str(&format!(" end:{leak}:{errs}{detail}"));
    }
    out
}

fn inner(line: &str) -> bool {
    let Some(s) = parse(line) else { return false };
    host::reset(0);
    let decls: Vec<(bool, bool, Kind, u32)> = s.decls.iter().map(|d| (d.fut, d.gw, d.kind, d.cx)).collect();
    chan_host::reset(&decls);
    payload::reset(s.decls.len());
    run(&s);
    payload::cleanup();
    chan_host::clear();
    host::reset(0);
    TASKS.with(|m| *m.borrow_mut() = Default::default());
    true
}
