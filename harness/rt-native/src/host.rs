//! Scripted mock component-model host.
//!
//! Defines every canonical built-in the runtime declares through `extern_wasm!` (hook H1 turns the
//! `unreachable!()` shims into undefined `extern "C"` symbols named by their wasm import name).
//! The host is deliberately dumb: it keeps the handle table the canonical ABI prescribes
//! (waitables, waitable sets, pending events, context slot 0) and answers every choice from the
//! script (see README.md).  The *same* resolution rules are written in lean/Witverif/Async/Host.lean,
//! which additionally checks that every answer recorded in the trace is legal (Appendix B).
//! Numeric codes below are the component-model spec's (NOT imported from the runtime: a drift of
//! the runtime's private constants must show up as a disagreement).
#![allow(dead_code)]
use crate::trace::ev;
use std::cell::RefCell;
use std::collections::BTreeMap;
use std::ffi::c_void;

pub const EVENT_NONE: u32 = 0;
pub const EVENT_SUBTASK: u32 = 1;
pub const EVENT_STREAM_READ: u32 = 2;
pub const EVENT_STREAM_WRITE: u32 = 3;
pub const EVENT_FUTURE_READ: u32 = 4;
pub const EVENT_FUTURE_WRITE: u32 = 5;
pub const EVENT_CANCEL: u32 = 6;
pub const STARTING: u32 = 0;
pub const STARTED: u32 = 1;
pub const RETURNED: u32 = 2;
pub const STARTED_CANCELLED: u32 = 3;
pub const RETURNED_CANCELLED: u32 = 4;

pub fn resolved(s: u32) -> bool {
    s >= RETURNED
}

/// Host-side state of one subtask (an async-lowered import call that did not return at once).
#[derive(Debug, Clone)]
pub struct Sub {
    pub k: usize,
    /// the callee's state as the host knows it
    pub state: u32,
    /// status of the not-yet-delivered event, if any (a later change overwrites it)
    pub pending: Option<u32>,
    /// a resolved status has reached the guest (by event or as `subtask.cancel`'s result)
    pub resolved_delivered: bool,
    pub cancel_requested: bool,
    /// waitable set it is joined to (0 = none)
    pub set: u32,
}

/// A waitable that is not a subtask (a stream or future end).  Only what the waitable-set built-ins
/// need lives here; the copy state (idle/copying/done, peer, buffers) lives with the owner of the
/// handle (unit_host.rs: the unit stream of the inter-task wakeup; chan_host.rs: payload streams and
/// futures), which inserts/removes the entry and sets `pending`.
#[derive(Debug, Clone, Default)]
pub struct End {
    /// waitable set it is joined to (0 = none)
    pub set: u32,
    /// the not-yet-delivered event: (event code, payload)
    pub pending: Option<(u32, u32)>,
}

#[derive(Default)]
pub struct Host {
    pub next: u32,
    pub subs: BTreeMap<u32, Sub>,
    /// stream / future ends (see `End`)
    pub ends: BTreeMap<u32, End>,
    /// called with (handle, event, payload) when the pending event of an `ends` entry is taken for
    /// delivery (the owner moves its copy state); every owner registers one and ignores foreign handles
    pub take_hooks: Vec<fn(u32, u32, u32)>,
    /// called at the start of a `waitable-set.wait(set)` (engines whose task blocks inside the
    /// built-in — `block_on` — run their host directives here)
    pub on_wait: Option<fn(u32)>,
    /// engines whose task can spin inside the runtime (`block_on`: YIELD → poll → YIELD …): number of
    /// `waitable-set.poll` calls left before the host traps and answers EVENT_CANCEL (None = unlimited)
    pub poll_budget: Option<u32>,
    /// live waitable sets
    pub sets: Vec<u32>,
    pub ctx0: usize,
    pub task_ptr: usize,
    /// per call index: handle of its subtask (0 = none / returned at once)
    pub call_handle: Vec<u32>,
    /// per call index: the script's answer to `subtask.cancel` (0,1,2 — see `cancel_answer`)
    pub call_cx: Vec<u32>,
    pub trapped: bool,
    pub backpressure: i64,
    pub errctx: Vec<u32>,
    /// hook run when a subtask's callee state changes (reads params / writes results; subtask.rs)
    pub on_state: Option<fn(usize, u32, u32)>,
}

thread_local! {
    pub static HOST: RefCell<Host> = RefCell::new(Host::default());
}

pub fn reset(ncalls: usize) {
    HOST.with(|h| {
        let mut h = h.borrow_mut();
        *h = Host::default();
        h.next = 1;
        h.call_handle = vec![0; ncalls];
        h.call_cx = vec![0; ncalls];
    });
}

pub fn trap(reason: &str) {
    ev(&format!("!trap:{reason}"));
    HOST.with(|h| h.borrow_mut().trapped = true);
}

fn state_changed(k: usize, from: u32, to: u32) {
    let f = HOST.with(|h| h.borrow().on_state);
    if let Some(f) = f {
        f(k, from, to);
    }
}

/// The async-lowered import itself (called from the instrumented `Subtask::call_import`).
/// `st` = the script's choice of the status the call reports at once.
pub fn import_call(k: usize, st: u32) -> u32 {
    assert!(st <= RETURNED);
    // the callee's state moves STARTING -> st before the call returns
    if st >= STARTED {
        state_changed(k, STARTING, STARTED);
    }
    if st == RETURNED {
        state_changed(k, STARTED, RETURNED);
    }
    let handle = if st == RETURNED {
        0
    } else {
        HOST.with(|h| {
            let mut h = h.borrow_mut();
            let id = h.next;
            h.next += 1;
            h.subs.insert(id, Sub { k, state: st, pending: None, resolved_delivered: false, cancel_requested: false, set: 0 });
            h.call_handle[k] = id;
            id
        })
    };
    ev(&format!("call{k}={st}:{handle}"));
    st | (handle << 4)
}

/// Host directive `A<k>:<s>`: the callee of call `k` moves to state `s`.  Applied only when it is
/// a legal forward move of an unresolved, not cancel-requested subtask; otherwise skipped.
pub fn advance(k: usize, s: u32) {
    let from = HOST.with(|h| {
        let h = h.borrow();
        let id = *h.call_handle.get(k)?;
        let sub = h.subs.get(&id)?;
        if (s == STARTED || s == RETURNED) && s > sub.state && !resolved(sub.state) && !sub.cancel_requested {
            Some(sub.state)
        } else {
            None
        }
    });
    match from {
        None => ev(&format!("adv{k}:skip")),
        Some(from) => {
            if from == STARTING {
                state_changed(k, STARTING, STARTED);
            }
            if s == RETURNED {
                state_changed(k, STARTED, RETURNED);
            }
            HOST.with(|h| {
                let mut h = h.borrow_mut();
                let id = h.call_handle[k];
                let sub = h.subs.get_mut(&id).unwrap();
                sub.state = s;
                sub.pending = Some(s);
            });
            ev(&format!("adv{k}:{s}"));
        }
    }
}

/// Take the pending event of waitable `w` for delivery (event code, payload).
pub fn take_event(w: u32) -> Option<(u32, u32)> {
    let (r, hooks) = HOST.with(|h| {
        let mut h = h.borrow_mut();
        if let Some(sub) = h.subs.get_mut(&w) {
            let Some(p) = sub.pending.take() else { return (None, Vec::new()) };
            if resolved(p) {
                sub.resolved_delivered = true;
            }
            return (Some((EVENT_SUBTASK, p)), Vec::new());
        }
        let r = h.ends.get_mut(&w).and_then(|e| e.pending.take());
        (r, if r.is_some() { h.take_hooks.clone() } else { Vec::new() })
    });
    if let Some((e, c)) = r {
        for f in hooks {
            f(w, e, c);
        }
    }
    r
}

pub fn has_event(w: u32) -> bool {
    HOST.with(|h| {
        let h = h.borrow();
        match h.subs.get(&w) {
            Some(s) => s.pending.is_some(),
            None => h.ends.get(&w).map(|e| e.pending.is_some()).unwrap_or(false),
        }
    })
}

/// members of set `s` that have a pending event, ascending
pub fn ready_members(s: u32) -> Vec<u32> {
    HOST.with(|h| {
        let h = h.borrow();
        let mut v: Vec<u32> = h.subs.iter().filter(|(_, v)| v.set == s && v.pending.is_some()).map(|(k, _)| *k).collect();
        v.extend(h.ends.iter().filter(|(_, v)| v.set == s && v.pending.is_some()).map(|(k, _)| *k));
        v.sort();
        v
    })
}

/// the waitable set `w` is joined to (0 = none / unknown handle)
pub fn set_of(w: u32) -> u32 {
    HOST.with(|h| {
        let h = h.borrow();
        h.subs.get(&w).map(|s| s.set).or(h.ends.get(&w).map(|e| e.set)).unwrap_or(0)
    })
}

// ------------------------------------------------------------------ canonical built-ins

#[export_name = "[subtask-cancel]"]
pub unsafe extern "C" fn subtask_cancel(handle: u32) -> u32 {
    enum R {
        Trap(&'static str),
        Ret(u32, Option<(usize, u32, u32)>),
    }
    let r = HOST.with(|h| {
        let mut h = h.borrow_mut();
        let cx = h.subs.get(&handle).map(|s| h.call_cx[s.k]).unwrap_or(0);
        let Some(sub) = h.subs.get_mut(&handle) else { return R::Trap("cancel-unknown-handle") };
        if sub.resolved_delivered {
            return R::Trap("cancel-resolved-delivered");
        }
        if sub.cancel_requested {
            return R::Trap("cancel-twice");
        }
        if sub.set != 0 {
            // (R) repo comment: the waitable must have left every set before a cancel
            return R::Trap("cancel-while-in-set");
        }
        sub.cancel_requested = true;
        if resolved(sub.state) {
            // already resolved, event not delivered yet: the cancel returns that status
            let p = sub.pending.take().unwrap_or(sub.state);
            sub.resolved_delivered = true;
            return R::Ret(p, None);
        }
        // synchronous cancel: the host resolves the callee now (script's choice `cx`)
        let from = sub.state;
        let to = match (from, cx) {
            (STARTING, 0) => STARTED_CANCELLED,
            (_, 2) => RETURNED,
            _ => RETURNED_CANCELLED,
        };
        sub.state = to;
        sub.pending = None;
        sub.resolved_delivered = true;
        R::Ret(to, Some((sub.k, from, to)))
    });
    match r {
        R::Trap(why) => {
            trap(why);
            ev(&format!("cancel({handle})=trap"));
            RETURNED_CANCELLED
        }
        R::Ret(code, change) => {
            if let Some((k, from, to)) = change {
                if to != STARTED_CANCELLED && from == STARTING {
                    state_changed(k, STARTING, STARTED);
                }
                if to == RETURNED {
                    state_changed(k, STARTED, RETURNED);
                }
            }
            ev(&format!("cancel({handle})={code}"));
            code
        }
    }
}

#[export_name = "[subtask-drop]"]
pub unsafe extern "C" fn subtask_drop(handle: u32) {
    let r = HOST.with(|h| {
        let mut h = h.borrow_mut();
        match h.subs.get(&handle) {
            None => Err("drop-unknown-handle"),
            Some(s) if !s.resolved_delivered => Err("drop-unresolved"),
            Some(_) => {
                h.subs.remove(&handle);
                Ok(())
            }
        }
    });
    if let Err(why) = r {
        trap(why);
    }
    ev(&format!("sdrop({handle})"));
}

#[export_name = "[waitable-set-new]"]
pub unsafe extern "C" fn waitable_set_new() -> u32 {
    let id = HOST.with(|h| {
        let mut h = h.borrow_mut();
        let id = h.next;
        h.next += 1;
        h.sets.push(id);
        id
    });
    ev(&format!("ws.new={id}"));
    id
}

#[export_name = "[waitable-set-drop]"]
pub unsafe extern "C" fn waitable_set_drop(set: u32) {
    let r = HOST.with(|h| {
        let mut h = h.borrow_mut();
        if !h.sets.contains(&set) {
            return Err("set-drop-unknown");
        }
        if h.subs.values().any(|s| s.set == set) || h.ends.values().any(|e| e.set == set) {
            return Err("set-drop-nonempty");
        }
        h.sets.retain(|s| *s != set);
        Ok(())
    });
    if let Err(why) = r {
        trap(why);
    }
    ev(&format!("ws.drop({set})"));
}

#[export_name = "[waitable-join]"]
pub unsafe extern "C" fn waitable_join(waitable: u32, set: u32) {
    let r = HOST.with(|h| {
        let mut h = h.borrow_mut();
        if set != 0 && !h.sets.contains(&set) {
            return Err("join-unknown-set");
        }
        if let Some(s) = h.subs.get_mut(&waitable) {
            s.set = set;
            return Ok(());
        }
        match h.ends.get_mut(&waitable) {
            None => Err("join-unknown-waitable"),
            Some(e) => {
                e.set = set;
                Ok(())
            }
        }
    });
    if let Err(why) = r {
        trap(why);
    }
    ev(&format!("join({waitable},{set})"));
}

fn set_poll(set: u32, what: &str, payload: *mut [u32; 2]) -> u32 {
    if !HOST.with(|h| h.borrow().sets.contains(&set)) {
        trap("poll-unknown-set");
    }
    // deterministic choice: the ready member with the smallest handle
    let (e, w, c) = match ready_members(set).first() {
        Some(&w) => {
            let (e, c) = take_event(w).unwrap();
            (e, w, c)
        }
        None => (EVENT_NONE, 0, 0),
    };
    unsafe {
        (*payload)[0] = w;
        (*payload)[1] = c;
    }
    ev(&format!("ws.{what}({set})={e}:{w}:{c}"));
    e
}

#[export_name = "[waitable-set-wait]"]
pub unsafe extern "C" fn waitable_set_wait(set: u32, payload: *mut [u32; 2]) -> u32 {
    let hook = HOST.with(|h| h.borrow().on_wait);
    if let Some(f) = hook {
        f(set);
        // escape hatch of engines that block inside this built-in: once the host has trapped (deadlocked
        // or livelocked script) the wait answers EVENT_CANCEL so that `block_on` unwinds instead of spinning
        if HOST.with(|h| h.borrow().trapped) {
            unsafe {
                (*payload)[0] = 0;
                (*payload)[1] = 0;
            }
            ev(&format!("ws.wait({set})={EVENT_CANCEL}:0:0"));
            return EVENT_CANCEL;
        }
    }
    // a blocking wait with nothing ready would block forever in this single-threaded mock
    if ready_members(set).is_empty() {
        trap("wait-would-block-forever");
    }
    set_poll(set, "wait", payload)
}

#[export_name = "[waitable-set-poll]"]
pub unsafe extern "C" fn waitable_set_poll(set: u32, payload: *mut [u32; 2]) -> u32 {
    let spent = HOST.with(|h| {
        let mut h = h.borrow_mut();
        match h.poll_budget.as_mut() {
            Some(0) => true,
            Some(n) => {
                *n -= 1;
                false
            }
            None => false,
        }
    });
    if spent {
        trap("livelock");
        unsafe {
            (*payload)[0] = 0;
            (*payload)[1] = 0;
        }
        ev(&format!("ws.poll({set})={EVENT_CANCEL}:0:0"));
        return EVENT_CANCEL;
    }
    set_poll(set, "poll", payload)
}

#[export_name = "[context-get-0]"]
pub unsafe extern "C" fn context_get_0() -> *mut u8 {
    let v = HOST.with(|h| h.borrow().ctx0);
    ev(if v == 0 { "ctx.get=0" } else { "ctx.get=p" });
    v as *mut u8
}

#[export_name = "[context-set-0]"]
pub unsafe extern "C" fn context_set_0(value: *mut u8) {
    HOST.with(|h| h.borrow_mut().ctx0 = value as usize);
    ev(if value.is_null() { "ctx.set(0)" } else { "ctx.set(p)" });
}

#[export_name = "[thread-yield]"]
pub unsafe extern "C" fn thread_yield() -> bool {
    ev("thread.yield=0");
    false
}

#[export_name = "[backpressure-inc]"]
pub unsafe extern "C" fn backpressure_inc() {
    HOST.with(|h| h.borrow_mut().backpressure += 1);
    ev("bp.inc");
}

#[export_name = "[backpressure-dec]"]
pub unsafe extern "C" fn backpressure_dec() {
    let neg = HOST.with(|h| {
        let mut h = h.borrow_mut();
        h.backpressure -= 1;
        h.backpressure < 0
    });
    if neg {
        trap("backpressure-underflow");
    }
    ev("bp.dec");
}

#[export_name = "[task-cancel]"]
pub unsafe extern "C" fn task_cancel() {
    ev("task.cancel");
}

#[repr(C)]
pub struct RetPtr {
    ptr: *mut u8,
    len: usize,
}

#[export_name = "[error-context-new-utf8]"]
pub unsafe extern "C" fn error_context_new(_ptr: *const u8, len: usize) -> u32 {
    let id = HOST.with(|h| {
        let mut h = h.borrow_mut();
        let id = h.next;
        h.next += 1;
        h.errctx.push(id);
        id
    });
    ev(&format!("errctx.new({len})={id}"));
    id
}

#[export_name = "[error-context-drop]"]
pub unsafe extern "C" fn error_context_drop(id: u32) {
    let known = HOST.with(|h| {
        let mut h = h.borrow_mut();
        let known = h.errctx.contains(&id);
        h.errctx.retain(|x| *x != id);
        known
    });
    if !known {
        trap("errctx-drop-unknown");
    }
    ev(&format!("errctx.drop({id})"));
}

#[export_name = "[error-context-debug-message-utf8]"]
pub unsafe extern "C" fn error_context_debug_message(id: u32, ret: *mut RetPtr) {
    // the host allocates the string in guest memory through the guest's realloc
    let msg = b"mock";
    use crate::sym::cabi_realloc_export;
    unsafe {
        let p = cabi_realloc_export(std::ptr::null_mut(), 0, 1, msg.len());
        std::ptr::copy_nonoverlapping(msg.as_ptr(), p, msg.len());
        (*ret).ptr = p;
        (*ret).len = msg.len();
    }
    ev(&format!("errctx.msg({id})"));
}

// The internal unit stream of the inter-task-wakeup feature (C23) is defined in unit_host.rs.

/// `wasip3_task_set`: on wasm this is a weak C symbol (src/wit_bindgen_cabi.c) holding one global
/// pointer; same here.  Opaque to the host.
#[no_mangle]
pub unsafe extern "C" fn wasip3_task_set(ptr: *mut c_void) -> *mut c_void {
    HOST.with(|h| {
        let mut h = h.borrow_mut();
        let prev = h.task_ptr;
        h.task_ptr = ptr as usize;
        prev as *mut c_void
    })
}
