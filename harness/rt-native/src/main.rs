//! rt-native: links the REAL wit-bindgen guest runtime natively (hook H1 on) and drives it.
//! usage: rt-native <engine>      requests on stdin, one answer line per request line
//!   engine `realloc`  C24  request histories against cabi_realloc / Cleanup / cabi_dealloc
//!   engine `script`   C18–C21  async scripts against a scripted mock component-model host
//!   engine `exec`     C22–C23  the real export-task executor: several futures / tasks, wakers
//!   engine `chan`     C19–C20  stream / future operations against a scripted peer
//! See README.md for the protocols.
extern crate alloc; // the extracted `cabi_realloc` item says `alloc::alloc::…`

use std::io::{BufRead, Write};

pub mod alloc_check;
mod chan;
mod chan_host;
mod exec;
mod host;
mod payload;
mod realloc;
mod script;
mod subtask;
mod trace;
mod unit_host;

#[global_allocator]
static GLOBAL: alloc_check::Checking = alloc_check::Checking;

/// `crate::rt::cabi_realloc`: the item text cut out of /repo/crates/guest-rust/src/rt/mod.rs
#[allow(unused_unsafe, clippy::all)]
pub mod rt {
    include!(concat!(env!("OUT_DIR"), "/cabi_realloc.rs"));
}
/// the generated wrapper file of the repo, unchanged (`cabi_realloc_wit_bindgen_<version>`)
#[allow(unused_unsafe, clippy::all)]
pub mod wit_bindgen_cabi_realloc {
    include!(concat!(env!("OUT_DIR"), "/cabi_realloc_wrapper.rs"));
}
/// runtime items the Rust generator emits into bindings (string templates in crates/rust)
#[allow(unused_unsafe, clippy::all)]
pub mod gen_rt {
    pub use std::alloc;
    include!(concat!(env!("OUT_DIR"), "/cabi_dealloc.rs"));
}

/// name of the exported realloc wrapper found in the repo (`cabi_realloc_wit_bindgen_<version>`)
pub mod sym {
    include!(concat!(env!("OUT_DIR"), "/cabi_realloc_symbol.rs"));
}

fn main() {
    let engine = std::env::args().nth(1).expect("engine");
    if engine == "features" {
        // probe used by tools/rtlib.py: which runtime feature build is this executable?
        let mut f: Vec<&str> = Vec::new();
        if cfg!(feature = "async-spawn") { f.push("async-spawn"); }
        if cfg!(feature = "inter-task-wakeup") { f.push("inter-task-wakeup"); }
        if cfg!(feature = "futures-stream") { f.push("futures-stream"); }
        println!("features:{}", f.join(","));
        return;
    }
    let f: fn(&str) -> String = match engine.as_str() {
        "realloc" => realloc::handle,
        "script" => script::handle,
        "exec" => exec::handle,
        "chan" => chan::handle,
        other => panic!("unknown engine {other}"),
    };
    // panics are expected outcomes of some scripts: keep stderr quiet, remember the message
    std::panic::set_hook(Box::new(|info| {
        trace::note_panic(&info.to_string());
        if std::env::var_os("RT_NATIVE_PANIC_STDERR").is_some() {
            eprintln!("[panic] {info}");
        }
    }));
    let stdin = std::io::stdin();
    let stdout = std::io::stdout();
    let mut out = std::io::BufWriter::new(stdout.lock());
    for line in stdin.lock().lines() {
        let line = line.unwrap();
        let ans = match std::panic::catch_unwind(|| f(&line)) {
            Ok(a) => a,
            Err(_) => format!("harness-panic\t{}", trace::take_panic()),
        };
        writeln!(out, "{ans}").unwrap();
    }
    out.flush().unwrap();
}
