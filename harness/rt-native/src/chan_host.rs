//! Host side of payload streams and futures (C19/C20): the peer of every guest end is the host.
//!
//! One *channel* = one stream or future of which the guest holds ONE end:
//!   guest-writer channel: the guest calls `stream.new`/`future.new`; the readable end is handed to
//!     the peer at once (`take_handle`, as generated bindings do when a stream is passed to an import;
//!     token `moved<r>`), the guest keeps the writable end;
//!   guest-reader channel: the guest received a readable end from the peer (token `given<c>:<h>`).
//! Both kinds of guest end are waitables in the shared handle table (`host::Host::ends`: set +
//! pending event); the copy state machine lives here.
//!
//! Rules (DESIGN Appendix B, stream/future part; the same text is lean/Witverif/Async/Host.lean,
//! namespace `Host.End`):
//!   read/write trap unless the end is idle (`copying`: an operation is in flight or its event has not
//!   been delivered; `done`: DROPPED was reported, or — futures — the value went through);
//!   immediate answer: COMPLETED|k<<4 (k ≤ n, k ≥ 1 unless n = 0) if the peer has an operation pending,
//!   DROPPED if the peer is gone, else BLOCKED (end copying).  While an end is copying the peer may
//!   transfer in several steps; the ONE pending event carries the total so far
//!   (EVENT_*, handle, COMPLETED|progress<<4), or DROPPED|progress<<4 once the peer dropped; taking the
//!   event for delivery makes the end idle (done for DROPPED; futures also for COMPLETED);
//!   cancel-* trap unless copying and (R) if the end is still in a waitable set; they return the pending
//!   event's code (consuming it) or resolve the race by the channel's `cx`; drop-* trap while copying;
//!   future.drop-writable also traps unless done.
//! Resolution (what this mock picks, scripted): `peer_ready` = size of the peer's pending operation
//! (`T<c>:<m>` directives), `peer_dropped` (`P<c>`), cancel choice `cx`:
//!   0 CANCELLED|0   1 COMPLETED|n (all)   2 DROPPED|0   3 CANCELLED|min(n,1)   4 COMPLETED|min(n,1)
//!   (futures: 0 CANCELLED, 1/4 COMPLETED, 2 DROPPED — writer ends only —, 3 CANCELLED).
//! Items are numbered 1,2,3,… per channel in creation order; the host reads the ids out of guest
//! memory when it takes items (`xf<c>:<id>:…`) and writes them when it gives items.
//! Numeric codes are the component-model spec's, not imported from the runtime.
use crate::host::{self, End, HOST};
use crate::trace::ev;
use std::cell::RefCell;

pub const BLOCKED: u32 = 0xffff_ffff;
pub const COMPLETED: u32 = 0;
pub const DROPPED: u32 = 1;
pub const CANCELLED: u32 = 2;

#[derive(Clone, Copy, PartialEq, Debug)]
pub enum Kind {
    /// canonical `u8` (no lower/lift)
    B,
    /// canonical, wider than one byte (no lower/lift): `u16`, `u32`, `u64`, `(u32, u32)`
    H,
    W,
    D,
    T,
    /// lifted, no lists (8 bytes: chan u32, id u32)
    R,
    /// lifted with an owned list (16 bytes: ptr, len of the bytes "c:id")
    S,
}

impl Kind {
    pub fn size(self) -> usize {
        match self {
            Kind::B => 1,
            Kind::H => 2,
            Kind::W => 4,
            Kind::D => 8,
            Kind::T => 8,
            Kind::R => 8,
            Kind::S => 16,
        }
    }
    pub fn align(self) -> usize {
        match self {
            Kind::B => 1,
            Kind::H => 2,
            Kind::W | Kind::T | Kind::R => 4,
            Kind::D | Kind::S => 8,
        }
    }
    /// the payload goes through `lower` / `lift` (a slab)
    pub fn lowers(self) -> bool {
        matches!(self, Kind::R | Kind::S)
    }
}

/// canonical values of the wide kinds: every byte of the element depends on the id, so that a read at a
/// wrong byte offset does not decode to an id
pub fn w_value(id: u32) -> u32 {
    (id & 0xffff) | ((!id & 0xffff) << 16)
}
pub fn w_id(v: u32) -> Option<u32> {
    if (v >> 16) == (!v & 0xffff) { Some(v & 0xffff) } else { None }
}
pub fn d_value(id: u32) -> u64 {
    w_value(id) as u64 | (((w_value(id) ^ 0x5a5a_5a5a) as u64) << 32)
}
pub fn d_id(v: u64) -> Option<u32> {
    let lo = v as u32;
    if (v >> 32) as u32 == lo ^ 0x5a5a_5a5a { w_id(lo) } else { None }
}
pub const T_TAG: u32 = 0xC0DE_0000;

#[derive(Clone, Copy, PartialEq, Debug)]
pub enum St {
    Idle,
    Copying,
    Done,
}

#[derive(Clone, Debug)]
pub struct HChan {
    pub c: usize,
    pub fut: bool,
    pub guest_writes: bool,
    pub kind: Kind,
    pub cx: u32,
    /// guest end (0 = not opened yet)
    pub handle: u32,
    pub state: St,
    pub ptr: usize,
    pub n: usize,
    pub progress: usize,
    pub peer_dropped: bool,
    pub peer_ready: usize,
    /// guest-reader channels: id of the next item the peer writes
    pub next_item: u32,
    /// the guest end was dropped
    pub gone: bool,
    /// guest-writer channels: ids the peer reader got, in order
    pub received: Vec<u32>,
    /// futures, guest-reader: the peer has written its one value
    pub peer_wrote: bool,
}

thread_local! {
    pub static CHANS: RefCell<Vec<HChan>> = RefCell::new(Vec::new());
}

pub fn reset(decls: &[(bool, bool, Kind, u32)]) {
    CHANS.with(|c| {
        *c.borrow_mut() = decls
            .iter()
            .enumerate()
            .map(|(i, &(fut, guest_writes, kind, cx))| HChan {
                c: i,
                fut,
                guest_writes,
                kind,
                cx,
                handle: 0,
                state: St::Idle,
                ptr: 0,
                n: 0,
                progress: 0,
                peer_dropped: false,
                peer_ready: 0,
                next_item: 1,
                gone: false,
                received: Vec::new(),
                peer_wrote: false,
            })
            .collect();
    });
    HOST.with(|h| {
        let mut h = h.borrow_mut();
        if !h.take_hooks.iter().any(|f| *f as usize == on_take as *const () as usize) {
            h.take_hooks.push(on_take);
        }
    });
}

pub fn clear() {
    CHANS.with(|c| *c.borrow_mut() = Vec::new());
}

fn with_chan<R>(c: usize, f: impl FnOnce(&mut HChan) -> R) -> R {
    CHANS.with(|v| f(&mut v.borrow_mut()[c]))
}

pub fn by_handle(h: u32) -> Option<usize> {
    CHANS.with(|v| v.borrow().iter().position(|x| x.handle == h && h != 0 && !x.gone))
}

fn event_code(x: &HChan) -> u32 {
    match (x.fut, x.guest_writes) {
        (false, false) => host::EVENT_STREAM_READ,
        (false, true) => host::EVENT_STREAM_WRITE,
        (true, false) => host::EVENT_FUTURE_READ,
        (true, true) => host::EVENT_FUTURE_WRITE,
    }
}

fn pending(h: u32) -> Option<(u32, u32)> {
    HOST.with(|hh| hh.borrow().ends.get(&h).and_then(|e| e.pending))
}
fn set_pending(h: u32, p: Option<(u32, u32)>) {
    HOST.with(|hh| {
        if let Some(e) = hh.borrow_mut().ends.get_mut(&h) {
            e.pending = p;
        }
    });
}
fn in_set(h: u32) -> bool {
    host::set_of(h) != 0
}

/// the state an end has after the guest learned `code` (by event, cancel result or at once)
fn after_code(fut: bool, code: u32) -> St {
    if code == BLOCKED {
        St::Copying
    } else if code & 0xf == DROPPED || (fut && code & 0xf == COMPLETED) {
        St::Done
    } else {
        St::Idle
    }
}

/// a pending event of one of our ends was taken for delivery
fn on_take(h: u32, _e: u32, code: u32) {
    CHANS.with(|v| {
        for x in v.borrow_mut().iter_mut() {
            if x.handle == h && !x.gone && x.state == St::Copying {
                x.state = after_code(x.fut, code);
                x.progress = 0;
                x.n = 0;
            }
        }
    });
}

// ------------------------------------------------------------------ guest memory <-> item ids

/// read the id of the item at `p` (lowered form); `None` = garbage
unsafe fn read_item(kind: Kind, c: usize, p: usize) -> Option<u32> {
    unsafe {
        match kind {
            Kind::B => Some(*(p as *const u8) as u32),
            Kind::H => Some((p as *const u16).read_unaligned() as u32),
            Kind::W => w_id((p as *const u32).read_unaligned()),
            Kind::D => d_id((p as *const u64).read_unaligned()),
            Kind::T => {
                let tag = (p as *const u32).read_unaligned();
                let id = ((p + 4) as *const u32).read_unaligned();
                if tag == T_TAG + c as u32 { Some(id) } else { None }
            }
            Kind::R => {
                let ch = (p as *const u32).read_unaligned();
                let id = ((p + 4) as *const u32).read_unaligned();
                if ch as usize == c { Some(id) } else { None }
            }
            Kind::S => {
                let dp = (p as *const usize).read_unaligned();
                let len = ((p + 8) as *const usize).read_unaligned();
                crate::payload::parse_data(c, dp, len)
            }
        }
    }
}

/// write item `id` at `p` in lowered form (the peer writer gives it to the guest)
unsafe fn write_item(kind: Kind, c: usize, p: usize, id: u32) {
    unsafe {
        match kind {
            Kind::B => *(p as *mut u8) = id as u8,
            Kind::H => (p as *mut u16).write_unaligned(id as u16),
            Kind::W => (p as *mut u32).write_unaligned(w_value(id)),
            Kind::D => (p as *mut u64).write_unaligned(d_value(id)),
            Kind::T => {
                (p as *mut u32).write_unaligned(T_TAG + c as u32);
                ((p + 4) as *mut u32).write_unaligned(id);
            }
            Kind::R => {
                (p as *mut u32).write_unaligned(c as u32);
                ((p + 4) as *mut u32).write_unaligned(id);
            }
            Kind::S => {
                let (dp, len) = crate::payload::host_make_data(c, id);
                (p as *mut usize).write_unaligned(dp);
                ((p + 8) as *mut usize).write_unaligned(len);
            }
        }
    }
}

/// move `k` items between the guest buffer of channel `c` (at offset `progress`) and the peer;
/// emits `xf<c>:<ids…>`
fn transfer(c: usize, k: usize) {
    transfer_as(c, k, "xf")
}

fn transfer_as(c: usize, k: usize, tok: &str) {
    let (kind, gw, ptr, progress, first) = with_chan(c, |x| (x.kind, x.guest_writes, x.ptr, x.progress, x.next_item));
    let mut ids = Vec::new();
    let mut flag = "";
    for i in 0..k {
        let p = ptr + (progress + i) * kind.size();
        if gw {
            match unsafe { read_item(kind, c, p) } {
                Some(id) => {
                    crate::payload::host_took(c, id);
                    ids.push(id)
                }
                None => {
                    flag = "!hostread-garbage";
                    ids.push(0);
                }
            }
        } else {
            let id = first + i as u32;
            unsafe { write_item(kind, c, p, id) };
            if kind == Kind::R {
                crate::payload::host_made(c, id, kind);
            }
            ids.push(id);
        }
    }
    with_chan(c, |x| {
        x.progress += k;
        if gw {
            x.received.extend(ids.iter().copied());
        } else {
            x.next_item += k as u32;
        }
    });
    let mut t = format!("{tok}{c}");
    for id in &ids {
        t.push_str(&format!(":{id}"));
    }
    ev(&format!("{t}{flag}"));
}

// ------------------------------------------------------------------ opening a channel

fn alloc_end() -> u32 {
    HOST.with(|h| {
        let mut h = h.borrow_mut();
        let id = h.next;
        h.next += 1;
        h.ends.insert(id, End::default());
        id
    })
}

/// `stream.new` / `future.new` for guest-writer channel `c` (called by the payload vtable's `new`)
pub fn new_pair(c: usize) -> u64 {
    let w = alloc_end();
    let r = alloc_end();
    let fut = with_chan(c, |x| {
        x.handle = w;
        x.fut
    });
    ev(&format!("{}{w}:{r}", if fut { "fnew" } else { "snew" }));
    ((w as u64) << 32) | r as u64
}

/// the readable end `r` leaves the guest's table (it was lowered into a call to the peer)
pub fn moved(r: u32) {
    HOST.with(|h| h.borrow_mut().ends.remove(&r));
    ev(&format!("moved{r}"));
}

/// the guest receives a readable end for guest-reader channel `c`
pub fn give(c: usize) -> u32 {
    let r = alloc_end();
    with_chan(c, |x| x.handle = r);
    ev(&format!("given{c}:{r}"));
    r
}

// ------------------------------------------------------------------ the copy built-ins

fn trap_code(c: Option<usize>, what: &str) -> u32 {
    host::trap(what);
    let _ = c;
    DROPPED
}

/// a read into a lifted payload goes through a slab the runtime allocated: watch its release
fn watch_read_slab(x: &HChan, write: bool, ptr: usize, n: usize) {
    if !write && x.kind.lowers() && n > 0 {
        crate::payload::watch_slab(ptr, x.c);
    }
}

/// `stream.read|write` / `future.read|write`
pub fn copy(h: u32, write: bool, fut: bool, ptr: usize, n: usize) -> u32 {
    let name = match (fut, write) {
        (false, true) => "swrite",
        (false, false) => "sread",
        (true, true) => "fwrite",
        (true, false) => "fread",
    };
    let code = match by_handle(h) {
        None => trap_code(None, "copy-unknown-handle"),
        Some(c) => {
            let x = with_chan(c, |x| x.clone());
            if x.guest_writes != write || x.fut != fut {
                trap_code(Some(c), "copy-wrong-end")
            } else if { watch_read_slab(&x, write, ptr, n); false } {
                unreachable!()
            } else if x.state == St::Copying {
                trap_code(Some(c), "copy-while-copying")
            } else if x.state == St::Done {
                trap_code(Some(c), "copy-after-done")
            } else if x.peer_ready > 0 {
                // the peer has an operation pending: rendezvous now
                let k = n.min(x.peer_ready);
                with_chan(c, |y| {
                    y.ptr = ptr;
                    y.n = n;
                    y.progress = 0;
                });
                transfer(c, k);
                with_chan(c, |y| {
                    y.peer_ready -= k;
                    y.progress = 0;
                    y.n = 0;
                    let code = if fut { COMPLETED } else { COMPLETED | ((k as u32) << 4) };
                    if fut && !write {
                        y.peer_wrote = true;
                    }
                    y.state = after_code(fut, code);
                    code
                })
            } else if x.peer_dropped {
                with_chan(c, |y| y.state = St::Done);
                DROPPED
            } else {
                with_chan(c, |y| {
                    y.state = St::Copying;
                    y.ptr = ptr;
                    y.n = n;
                    y.progress = 0;
                });
                BLOCKED
            }
        }
    };
    if fut {
        ev(&format!("{name}{h}:{code}"));
    } else {
        // where the guest's pointer points, in BYTES from the base of the live heap block it lies in (the
        // vector's storage / the slab): the specification wants `elements already transferred x element size`
        let (off, flag) = match crate::alloc_check::containing(ptr, 4096) {
            Some((base, _)) => (ptr - base, ""),
            None if n == 0 => (0, ""),
            None => (0, "!copy-pointer-outside-live-blocks"),
        };
        let mis = match by_handle(h).or_else(|| CHANS.with(|v| v.borrow().iter().position(|x| x.handle == h && h != 0))) {
            Some(c) if n > 0 && ptr % with_chan(c, |x| x.kind.align()) != 0 => "!copy-pointer-misaligned",
            _ => "",
        };
        ev(&format!("{name}{h}:{n}:{code}:{off}{flag}{mis}"));
    }
    code
}

/// `*.cancel-read|write`
pub fn cancel(h: u32, write: bool, fut: bool) -> u32 {
    let name = match (fut, write) {
        (false, true) => "scw",
        (false, false) => "scr",
        (true, true) => "fcw",
        (true, false) => "fcr",
    };
    let code = match by_handle(h) {
        None => trap_code(None, "cancel-unknown-handle"),
        Some(c) => {
            let x = with_chan(c, |x| x.clone());
            if x.guest_writes != write || x.fut != fut {
                trap_code(Some(c), "cancel-wrong-end")
            } else if x.state != St::Copying {
                trap_code(Some(c), "cancel-not-copying")
            } else if in_set(h) {
                // (R) repo comment: the waitable must have left every set before a cancel
                trap_code(Some(c), "cancel-while-in-set")
            } else if let Some((_e, code)) = pending(h) {
                set_pending(h, None);
                with_chan(c, |y| {
                    y.state = after_code(fut, code);
                    y.progress = 0;
                    y.n = 0;
                });
                code
            } else {
                // nothing happened yet: the host resolves the race now (script's choice)
                let one = x.n.min(1);
                let (base, k) = if fut {
                    match x.cx {
                        1 | 4 => (COMPLETED, 1),
                        2 if write => (DROPPED, 0),
                        _ => (CANCELLED, 0),
                    }
                } else {
                    match x.cx {
                        1 => (COMPLETED, x.n),
                        2 => (DROPPED, 0),
                        3 => (CANCELLED, one),
                        4 => (COMPLETED, one),
                        _ => (CANCELLED, 0),
                    }
                };
                if k > 0 {
                    transfer_as(c, k, "xfr");
                }
                if fut && !write && base == COMPLETED {
                    with_chan(c, |y| y.peer_wrote = true);
                }
                let code = if fut { base } else { base | ((k as u32) << 4) };
                with_chan(c, |y| {
                    if base == DROPPED {
                        y.peer_dropped = true;
                    }
                    y.state = after_code(fut, code);
                    y.progress = 0;
                    y.n = 0;
                });
                code
            }
        }
    };
    ev(&format!("{name}{h}:{code}"));
    code
}

/// `*.drop-readable|writable`
pub fn drop_end(h: u32, write: bool, fut: bool) {
    let name = match (fut, write) {
        (false, true) => "sdw",
        (false, false) => "sdr",
        (true, true) => "fdw",
        (true, false) => "fdr",
    };
    match by_handle(h) {
        None => host::trap("drop-unknown-handle"),
        Some(c) => {
            let x = with_chan(c, |x| x.clone());
            if x.guest_writes != write || x.fut != fut {
                host::trap("drop-wrong-end");
            } else if x.state == St::Copying {
                host::trap("drop-while-copying");
            } else if fut && write && x.state != St::Done {
                host::trap("future-writer-dropped-unwritten");
            }
            with_chan(c, |y| y.gone = true);
            HOST.with(|hh| hh.borrow_mut().ends.remove(&h));
        }
    }
    ev(&format!("{name}{h}"));
}

// ------------------------------------------------------------------ peer directives

/// `T<c>:<m>`: the peer reads (guest-writer channel) / writes (guest-reader channel) up to `m` items
pub fn peer_transfer(c: usize, m: usize) {
    let x = with_chan(c, |x| x.clone());
    let m = if x.fut { 1 } else { m };
    if x.handle == 0 || x.gone || x.peer_dropped || x.state == St::Done || (x.fut && !x.guest_writes && x.peer_wrote) {
        ev(&format!("xfskip{c}"));
        return;
    }
    if x.state == St::Copying && (x.progress < x.n || (x.n == 0 && pending(x.handle).is_none())) {
        let k = m.min(x.n - x.progress);
        transfer(c, k);
        let code = with_chan(c, |y| {
            // a reading peer keeps the rest of its read pending; a writing peer keeps the items it
            // could not place (its write stays pending)
            y.peer_ready += m - k;
            if y.fut && !y.guest_writes {
                y.peer_wrote = true;
            }
            if y.fut { COMPLETED } else { COMPLETED | ((y.progress as u32) << 4) }
        });
        set_pending(x.handle, Some((event_code(&x), code)));
    } else {
        // the peer's operation waits for the guest's next one
        with_chan(c, |y| {
            y.peer_ready += m;
            if y.fut {
                y.peer_ready = 1;
                if !y.guest_writes {
                    y.peer_wrote = true;
                }
            }
        });
        ev(&format!("pready{c}:{m}"));
    }
}

/// `P<c>`: the peer drops its end (a future's writer cannot: it has to write first)
pub fn peer_drop(c: usize) {
    let x = with_chan(c, |x| x.clone());
    if x.handle == 0 || x.gone || x.peer_dropped || (x.fut && !x.guest_writes) || (x.fut && x.state == St::Done) {
        ev(&format!("pdskip{c}"));
        return;
    }
    with_chan(c, |y| {
        y.peer_dropped = true;
        y.peer_ready = 0;
    });
    if x.state == St::Copying {
        let already = pending(x.handle);
        // a future whose value already went through stays COMPLETED
        if !(x.fut && already.is_some()) {
            let code = if x.fut { DROPPED } else { DROPPED | ((x.progress as u32) << 4) };
            set_pending(x.handle, Some((event_code(&x), code)));
        }
    }
    ev(&format!("pd{c}"));
}

/// end-of-script check of the host's side; returns anomalies
pub fn audit() -> Vec<String> {
    let mut out = Vec::new();
    CHANS.with(|v| {
        for x in v.borrow().iter() {
            if x.fut && x.guest_writes && x.received.len() > 1 {
                out.push(format!("!future-value-twice{}", x.c));
            }
        }
    });
    out
}

pub fn snapshot(c: usize) -> HChan {
    with_chan(c, |x| x.clone())
}
