//! Engine `script`: runs one async script per request line against the real runtime.
//! Full protocol: README.md.  Line = `<mode> | <call specs> | <body> | <host directives>`
//!
//!   mode    cabi1 | cabi2   the harness is the executor: it installs its own `wasip3_task`
//!                           (C ABI version 1 or 2), polls the body with its own waker and
//!                           delivers events by calling the registered callbacks
//!           export          the REAL executor: `start_task(body)` then `callback(e0,e1,e2)` as the
//!                           host would call an async-lifted export and its callback
//!   body    c<k> create the future of call k     p<k> poll it once       a<k> await it
//!           d<k> drop it      w suspend (Pending, resumed by the next poll of the body)
//!           y `yield_async().await`     t<n> (cabi modes) continue under harness task n ∈ {1,2}
//!   host    A<k>:<s> callee of call k moves to status s      D<k> deliver call k's pending event
//!           (consumed while the body is suspended; when they run out the host cancels the task)
use crate::host::{self, EVENT_CANCEL, EVENT_NONE};
use crate::subtask::{self, Call, Params, Spec};
use crate::trace::{self, ev};
use crate::alloc_check as ca;
use std::cell::RefCell;
use std::collections::BTreeMap;
use std::ffi::c_void;
use std::future::Future;
use std::pin::Pin;
use std::sync::atomic::{AtomicBool, Ordering};
use std::sync::Arc;
use std::task::{Context, Poll, Wake, Waker};
use wit_bindgen::rt::async_support::Subtask;

#[derive(Clone, Copy, Debug)]
enum Instr {
    New(usize),
    Poll(usize),
    Await(usize),
    Drop(usize),
    Wait,
    Yield,
    /// cabi modes: from now on the body runs under harness task n (1 or 2)
    Task(usize),
}

#[derive(Clone, Copy, Debug)]
enum Dir {
    Adv(usize, u32),
    Dlv(usize),
}

#[derive(Clone, Copy, PartialEq, Debug)]
enum Mode {
    Cabi(u32),
    Export,
}

struct Script {
    mode: Mode,
    specs: Vec<Spec>,
    body: Vec<Instr>,
    dirs: Vec<Dir>,
}

fn parse(line: &str) -> Option<Script> {
    let secs: Vec<&str> = line.split('|').map(|s| s.trim()).collect();
    if secs.len() != 4 {
        return None;
    }
    let mode = match secs[0] {
        "cabi1" => Mode::Cabi(1),
        "cabi2" => Mode::Cabi(2),
        "export" => Mode::Export,
        _ => return None,
    };
    let specs: Vec<Spec> = secs[1].split_whitespace().map(Spec::parse).collect::<Option<_>>()?;
    let n = specs.len();
    let idx = |s: &str| -> Option<usize> { s.parse::<usize>().ok().filter(|k| *k < n) };
    let mut body = Vec::new();
    for t in secs[2].split_whitespace() {
        let (op, arg) = t.split_at(1);
        body.push(match op {
            "c" => Instr::New(idx(arg)?),
            "p" => Instr::Poll(idx(arg)?),
            "a" => Instr::Await(idx(arg)?),
            "d" => Instr::Drop(idx(arg)?),
            "w" if arg.is_empty() => Instr::Wait,
            "y" if arg.is_empty() => Instr::Yield,
            "t" => Instr::Task(arg.parse::<usize>().ok().filter(|n| *n == 1 || *n == 2)?),
            _ => return None,
        });
    }
    let mut dirs = Vec::new();
    for t in secs[3].split_whitespace() {
        let (op, arg) = t.split_at(1);
        dirs.push(match op {
            "A" => {
                let (k, s) = arg.split_once(':')?;
                let s: u32 = s.parse().ok()?;
                if s > 4 {
                    return None;
                }
                Dir::Adv(idx(k)?, s)
            }
            "D" => Dir::Dlv(idx(arg)?),
            _ => return None,
        });
    }
    Some(Script { mode, specs, body, dirs })
}

// --------------------------------------------------------------------------------- body

type Fut = Pin<Box<dyn Future<Output = subtask::Results>>>;

struct Slot {
    k: usize,
    fut: Option<Fut>,
}

impl Drop for Slot {
    fn drop(&mut self) {
        if let Some(f) = self.fut.take() {
            ev(&format!("edrop{}", self.k));
            drop(f);
        }
    }
}

/// returns `Pending` once, without waking anybody
pub(crate) struct Suspend(pub(crate) bool);
impl Future for Suspend {
    type Output = ();
    fn poll(mut self: Pin<&mut Self>, _cx: &mut Context<'_>) -> Poll<()> {
        if self.0 {
            Poll::Ready(())
        } else {
            self.0 = true;
            Poll::Pending
        }
    }
}

async fn poll_once(f: &mut Fut) -> Poll<subtask::Results> {
    std::future::poll_fn(|cx| Poll::Ready(f.as_mut().poll(cx))).await
}

async fn body(instrs: Vec<Instr>, calls: Vec<*mut Call>) {
    let calls = calls;
    let mut slots: Vec<Slot> = (0..calls.len()).map(|k| Slot { k, fut: None }).collect();
    let mut used = vec![false; calls.len()];
    for i in instrs {
        match i {
            Instr::New(k) => {
                if used[k] {
                    ev(&format!("new{k}:skip"));
                } else {
                    used[k] = true;
                    // SAFETY: the Call objects outlive the body (freed by `run` after the body)
                    let cp: *mut Call = calls[k];
                    let call: &'static mut Call = unsafe { &mut *cp };
                    let params = Params::new(k, &call.spec);
                    ev(&format!("new{k}"));
                    slots[k].fut = Some(Box::pin(call.call(params)));
                }
            }
            Instr::Poll(k) => match slots[k].fut.as_mut() {
                None => ev(&format!("P{k}=none")),
                Some(f) => match poll_once(f).await {
                    Poll::Ready(res) => {
                        ev(&format!("P{k}=ready"));
                        slots[k].fut = None;
                        drop(res);
                    }
                    Poll::Pending => ev(&format!("P{k}=pend")),
                },
            },
            Instr::Await(k) => loop {
                match slots[k].fut.as_mut() {
                    None => {
                        ev(&format!("P{k}=none"));
                        break;
                    }
                    Some(f) => match poll_once(f).await {
                        Poll::Ready(res) => {
                            ev(&format!("P{k}=ready"));
                            slots[k].fut = None;
                            drop(res);
                            break;
                        }
                        Poll::Pending => {
                            ev(&format!("P{k}=pend"));
                            Suspend(false).await;
                        }
                    },
                }
            },
            Instr::Drop(k) => match slots[k].fut.take() {
                None => ev(&format!("drop{k}:none")),
                Some(f) => {
                    ev(&format!("drop{k}"));
                    drop(f);
                }
            },
            Instr::Wait => {
                ev("w");
                Suspend(false).await
            }
            Instr::Yield => {
                ev("y");
                wit_bindgen::yield_async().await
            }
            Instr::Task(n) => {
                let p = TASK_PTRS.with(|t| t.borrow()[n]);
                if p == 0 {
                    ev(&format!("task{n}:skip"));
                } else {
                    ev(&format!("task{n}"));
                    unsafe { host::wasip3_task_set(p as *mut c_void) };
                }
            }
        }
    }
    drop(slots);
    ev("fin");
}

// ------------------------------------------------- the harness as executor (cabi modes)

/// The C ABI of `crates/guest-rust/src/rt/async_support/cabi.rs`, re-declared here on purpose:
/// it is the documented contract that lets *independent* implementations be the executor.
#[repr(C)]
pub(crate) struct Wasip3Task {
    pub(crate) version: u32,
    pub(crate) ptr: *mut c_void,
    pub(crate) waitable_register: unsafe extern "C" fn(*mut c_void, u32, unsafe extern "C" fn(*mut c_void, u32), *mut c_void) -> *mut c_void,
    pub(crate) waitable_unregister: unsafe extern "C" fn(*mut c_void, u32) -> *mut c_void,
}
#[repr(C)]
pub(crate) struct Wasip3TaskV2 {
    pub(crate) v1: Wasip3Task,
    pub(crate) vtable: &'static Vtable,
}
#[repr(C)]
pub(crate) struct Vtable {
    waitable_register: unsafe extern "C" fn(*mut c_void, u32, unsafe extern "C" fn(*mut c_void, u32), *mut c_void) -> *mut c_void,
    waitable_unregister: unsafe extern "C" fn(*mut c_void, u32) -> *mut c_void,
    clone: unsafe extern "C" fn(*mut c_void) -> *mut c_void,
    drop: unsafe extern "C" fn(*mut c_void),
}

pub(crate) type Callback = unsafe extern "C" fn(*mut c_void, u32);

#[derive(Default)]
pub(crate) struct TaskMaps {
    /// task id -> waitable -> (callback, callback_ptr)
    pub(crate) maps: BTreeMap<usize, BTreeMap<u32, (Callback, usize)>>,
    pub(crate) clones: BTreeMap<usize, i64>,
}
thread_local! {
    pub(crate) static TASKS: RefCell<TaskMaps> = RefCell::new(TaskMaps::default());
    /// addresses of the harness's `wasip3_task` structs, by task id (0 = not available in this mode)
    pub(crate) static TASK_PTRS: RefCell<[usize; 3]> = RefCell::new([0; 3]);
}

pub(crate) unsafe extern "C" fn t_register(ptr: *mut c_void, w: u32, cb: Callback, cb_ptr: *mut c_void) -> *mut c_void {
    let t = ptr as usize;
    let prev = TASKS.with(|m| m.borrow_mut().maps.entry(t).or_default().insert(w, (cb, cb_ptr as usize)));
    ev(&format!("reg({t},{w})={}", prev.is_some() as u8));
    prev.map(|p| p.1).unwrap_or(0) as *mut c_void
}
pub(crate) unsafe extern "C" fn t_unregister(ptr: *mut c_void, w: u32) -> *mut c_void {
    let t = ptr as usize;
    let prev = TASKS.with(|m| m.borrow_mut().maps.entry(t).or_default().remove(&w));
    ev(&format!("unreg({t},{w})={}", prev.is_some() as u8));
    prev.map(|p| p.1).unwrap_or(0) as *mut c_void
}
unsafe extern "C" fn t_clone(ptr: *mut c_void) -> *mut c_void {
    let t = ptr as usize;
    TASKS.with(|m| *m.borrow_mut().clones.entry(t).or_default() += 1);
    ev(&format!("clone({t})"));
    ptr
}
unsafe extern "C" fn t_drop(ptr: *mut c_void) {
    let t = ptr as usize;
    TASKS.with(|m| *m.borrow_mut().clones.entry(t).or_default() -= 1);
    ev(&format!("tdrop({t})"));
}
pub(crate) static VTABLE: Vtable = Vtable { waitable_register: t_register, waitable_unregister: t_unregister, clone: t_clone, drop: t_drop };

pub(crate) struct Flag(pub(crate) AtomicBool);
impl Wake for Flag {
    fn wake(self: Arc<Self>) {
        self.0.store(true, Ordering::Relaxed)
    }
    fn wake_by_ref(self: &Arc<Self>) {
        self.0.store(true, Ordering::Relaxed)
    }
}

fn run_cabi(version: u32, s: &Script, calls: Vec<*mut Call>) {
    let mk = |tid: usize| Wasip3TaskV2 {
        v1: Wasip3Task { version, ptr: tid as *mut c_void, waitable_register: t_register, waitable_unregister: t_unregister },
        vtable: &VTABLE,
    };
    // two component tasks hosted by the harness; the body starts under task 1 and may move (`t<n>`)
    let mut task1 = mk(1);
    let mut task2 = mk(2);
    let p1 = &mut task1 as *mut Wasip3TaskV2 as usize;
    let p2 = &mut task2 as *mut Wasip3TaskV2 as usize;
    TASK_PTRS.with(|t| *t.borrow_mut() = [0, p1, p2]);
    let prev = unsafe { host::wasip3_task_set(p1 as *mut c_void) };
    let flag = Arc::new(Flag(AtomicBool::new(false)));
    let waker: Waker = flag.clone().into();
    let mut cx = Context::from_waker(&waker);
    let mut fut: Option<Pin<Box<dyn Future<Output = ()>>>> = Some(Box::pin(body(s.body.clone(), calls)));
    let mut dirs = s.dirs.iter();
    loop {
        flag.0.store(false, Ordering::Relaxed);
        if fut.as_mut().unwrap().as_mut().poll(&mut cx).is_ready() {
            break;
        }
        if host::HOST.with(|h| h.borrow().trapped) {
            ev("abort");
            break;
        }
        if flag.0.load(Ordering::Relaxed) {
            ev("woken");
            continue;
        }
        let mut delivered = false;
        for d in dirs.by_ref() {
            match *d {
                Dir::Adv(k, st) => host::advance(k, st),
                Dir::Dlv(k) => {
                    let h = host::HOST.with(|h| h.borrow().call_handle[k]);
                    // the task (lowest id first) whose map holds a registration for this waitable
                    let holder = TASKS.with(|m| m.borrow().maps.iter().find(|(_, m)| m.contains_key(&h)).map(|(t, _)| *t));
                    match holder {
                        Some(tid) if h != 0 && host::has_event(h) => {
                            let (_e, code) = host::take_event(h).unwrap();
                            let (cb, p) = TASKS.with(|m| m.borrow_mut().maps.get_mut(&tid).unwrap().remove(&h).unwrap());
                            ev(&format!("dlv({h},{code})"));
                            unsafe { cb(p as *mut c_void, code) };
                            delivered = true;
                            break;
                        }
                        _ => ev(&format!("dlv{k}:skip")),
                    }
                }
            }
        }
        if !delivered {
            // the host cancels the task: Rust maps cancellation to destruction
            ev("X");
            break;
        }
    }
    drop(fut.take());
    let left: usize = TASKS.with(|m| m.borrow().maps.values().map(|m| m.len()).sum());
    if left != 0 {
        ev(&format!("!registrations-left:{left}"));
    }
    let clones: i64 = TASKS.with(|m| m.borrow().clones.values().map(|c| c.abs()).sum());
    if clones != 0 {
        ev(&format!("!task-clones-left:{clones}"));
    }
    TASK_PTRS.with(|t| *t.borrow_mut() = [0; 3]);
    unsafe { host::wasip3_task_set(prev) };
}

// --------------------------------------------------------------- the real executor

fn run_export(s: &Script, calls: Vec<*mut Call>) {
    use wit_bindgen::rt::async_support::{callback, start_task};
    let show = |code: u32| match code & 0xf {
        0 => ev("cb=exit"),
        1 => ev("cb=yield"),
        2 => ev(&format!("cb=wait:{}", code >> 4)),
        _ => ev(&format!("!cb-unknown:{code}")),
    };
    ev("ev(start)");
    let mut code = start_task(body(s.body.clone(), calls)) as u32;
    show(code);
    let mut dirs = s.dirs.iter();
    let mut fuel = 10_000;
    loop {
        fuel -= 1;
        if fuel == 0 {
            ev("!livelock");
            break;
        }
        if host::HOST.with(|h| h.borrow().trapped) {
            ev("abort");
            break;
        }
        match code & 0xf {
            0 => break,
            1 => {
                ev("ev(0,0,0)");
                code = unsafe { callback(EVENT_NONE, 0, 0) };
                show(code);
            }
            2 => {
                let set = code >> 4;
                let mut delivered = false;
                for d in dirs.by_ref() {
                    match *d {
                        Dir::Adv(k, st) => host::advance(k, st),
                        Dir::Dlv(k) => {
                            let h = host::HOST.with(|h| h.borrow().call_handle[k]);
                            let in_set = host::HOST.with(|hh| hh.borrow().subs.get(&h).map(|x| x.set == set).unwrap_or(false));
                            if h != 0 && in_set && host::has_event(h) {
                                let (e, c) = host::take_event(h).unwrap();
                                ev(&format!("ev({e},{h},{c})"));
                                code = unsafe { callback(e, h, c) };
                                show(code);
                                delivered = true;
                                break;
                            } else {
                                ev(&format!("dlv{k}:skip"));
                            }
                        }
                    }
                }
                if !delivered {
                    ev("X");
                    ev(&format!("ev({EVENT_CANCEL},0,0)"));
                    code = unsafe { callback(EVENT_CANCEL, 0, 0) };
                    show(code);
                }
            }
            _ => break,
        }
    }
    let (sets, subs, ctx) = host::HOST.with(|h| {
        let h = h.borrow();
        (h.sets.len(), h.subs.len(), h.ctx0)
    });
    if code & 0xf == 0 && (sets != 0 || subs != 0 || ctx != 0) {
        ev(&format!("!host-leftovers:sets={sets}/subs={subs}/ctx={}", (ctx != 0) as u8));
    }
}

// ------------------------------------------------------------------------------------

fn run(s: &Script) {
    let calls: Vec<*mut Call> = s
        .specs
        .iter()
        .enumerate()
        .map(|(k, spec)| Box::into_raw(Box::new(Call { k, spec: *spec })))
        .collect();
    let r = std::panic::catch_unwind(std::panic::AssertUnwindSafe(|| match s.mode {
        Mode::Cabi(v) => run_cabi(v, s, calls.clone()),
        Mode::Export => run_export(s, calls.clone()),
    }));
    if r.is_err() {
        ev("panic");
    }
    for k in 0..calls.len() {
        let a = subtask::audit(k);
        if a != "ok" {
            ev(&format!("!audit{k}:{a}"));
        }
    }
    for c in calls {
        unsafe { drop(Box::from_raw(c)) };
    }
}

pub fn handle(line: &str) -> String {
    // the trace buffer exists before the baseline; growing it is a realloc (block count unchanged)
    trace::reset();
    host::reset(0);
    TASKS.with(|m| *m.borrow_mut() = TaskMaps::default());
    ca::clear_errors();
    let base = ca::live().0;
    // `@panic` marks the point where a Rust panic starts; what follows up to `panic` is unwinding
    trace::mark_panics(true);
    let ok = inner(line);
    trace::mark_panics(false);
    // all per-script state is gone now: whatever is still live was leaked by the code under test
    let leak = ca::live().0 as i64 - base as i64;
    if !ok {
        return "bad-script".into();
    }
    let (errs, first) = ca::errors();
    let panic_msg = trace::take_panic();
    let mut out = trace::take();
    let panicked = out.split(' ').any(|t| t == "panic");
    let detail = match first {
        Some(e) if errs > 0 => format!(":{}", e.label()),
        _ => String::new(),
    };
    if panicked {
        out.push_str(&format!(" end:?:{errs}{detail}\t{panic_msg}"));
    } else {
        out.push_str(&format!(" end:{leak}:{errs}{detail}"));
    }
    out
}

fn inner(line: &str) -> bool {
    let Some(s) = parse(line) else { return false };
    host::reset(s.specs.len());
    host::HOST.with(|h| {
        let mut h = h.borrow_mut();
        for (k, sp) in s.specs.iter().enumerate() {
            h.call_cx[k] = sp.cx;
        }
    });
    subtask::reset(&s.specs);
    run(&s);
    subtask::cleanup();
    host::reset(0);
    TASKS.with(|m| *m.borrow_mut() = TaskMaps::default());
    true
}
