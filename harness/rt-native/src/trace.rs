//! Global trace buffer of the `script` engine (one blank-separated token per event) and the
//! panic note.  The buffer is one `String` reserved before the leak baseline is taken; growing
//! it is a `realloc`, which does not change the live *block* count the leak check uses.
use std::cell::RefCell;

thread_local! {
    static TRACE: RefCell<String> = RefCell::new(String::with_capacity(1 << 16));
    static PANIC: RefCell<String> = RefCell::new(String::new());
}

pub fn reset() {
    TRACE.with(|t| t.borrow_mut().clear());
    PANIC.with(|p| p.borrow_mut().clear());
    crate::alloc_check::watch_clear();
}

/// Append one event token.  Frees of watched blocks (param/result areas) that happened since the
/// previous token are flushed first, so `free<k>` sits where the free happened.
pub fn ev(tok: &str) {
    flush_frees();
    stream(tok);
    TRACE.with(|t| {
        let mut t = t.borrow_mut();
        if !t.is_empty() {
            t.push(' ');
        }
        t.push_str(tok);
    });
}

pub fn flush_frees() {
    for (id, _poisoned) in crate::alloc_check::watch_take_freed() {
        TRACE.with(|t| {
            let mut t = t.borrow_mut();
            if !t.is_empty() {
                t.push(' ');
            }
            t.push_str(&format!("free{id}"));
        });
        stream(&format!("free{id}"));
    }
}

thread_local! {
    static STREAM: std::cell::Cell<Option<bool>> = std::cell::Cell::new(None);
}
/// With `RT_NATIVE_STREAM` set every token is also written to stderr at once (unbuffered): when a
/// script makes the PROCESS abort (a panic inside an `extern "C"` callback of the runtime cannot
/// unwind) the checks re-run that one script in this mode and still get the trace up to the abort.
fn stream(tok: &str) {
    let on = STREAM.with(|s| match s.get() {
        Some(b) => b,
        None => {
            let b = std::env::var_os("RT_NATIVE_STREAM").is_some();
            s.set(Some(b));
            b
        }
    });
    if on {
        eprint!("{tok} ");
    }
}

pub fn take() -> String {
    flush_frees();
    TRACE.with(|t| t.borrow().clone())
}

thread_local! {
    /// engine `exec`: mark the point of a panic in the trace (`@panic`), not only its message
    static MARK_PANICS: std::cell::Cell<bool> = std::cell::Cell::new(false);
}
pub fn mark_panics(on: bool) {
    MARK_PANICS.with(|m| m.set(on));
}

pub fn note_panic(msg: &str) {
    if MARK_PANICS.with(|m| m.get()) {
        ev("@panic");
    }
    PANIC.with(|p| {
        let mut p = p.borrow_mut();
        if p.is_empty() {
            *p = msg.replace(['\n', '\t'], " ");
        }
    });
}
pub fn take_panic() -> String {
    PANIC.with(|p| std::mem::take(&mut *p.borrow_mut()))
}
