//! Engine `exec` (C22, C23): the REAL export-task executor (`start_task` / `callback` / `block_on`,
//! `TaskState`, `Tasks::poll_next`, `spawn_local`, the inter-task wakeup) driven by scripts with several
//! Rust futures per task, several component tasks, captured wakers and wakes from everywhere.
//! Full protocol: README.md.  Line = `<driver> | <call specs> | <body0> ; <body1> ; … | <host directives>`
//!
//!   driver  start    body0 is the async-lifted export of task 1: `start_task(body0)`, then the harness
//!                    plays the host: `callback(e0,e1,e2)` per the returned code; `S<j>` starts more tasks
//!           block    `block_on(body0)`; the runtime itself calls waitable-set.wait/poll, the host
//!                    directives are consumed inside `waitable-set.wait`
//!   body    c<k> p<k> a<k> d<k> w y   as in engine `script` (call futures are local to the body)
//!           s<j>   `spawn_local(body j)` (feature async-spawn; otherwise `sp<j>:off`)
//!           k<n>   capture `cx.waker().clone()` in waker slot n (0..=3)
//!           W<n>   `wake_by_ref` on slot n      x<n>  drop slot n
//!           g<n>   arm a destructor that wakes slot n when the body is dropped or finishes
//!           m<k>   move call future k out of the body into a store that outlives every task (its waitable stays
//!                  registered through the C ABI after the Rust futures are done; dropped at the end of the script)
//!           r      `task.return` now (root body of a task; at most once; implicit at the end)
//!   host    A<k>:<s>  D<k>   as in `script` (D delivers to the task that waits on the set)
//!           U      deliver the pending stream/future-end event with the smallest handle (wakeup reads)
//!           K<n>   wake slot n from outside any task          Z<n>  drop slot n from outside
//!           S<j>   start a new component task with root body j
//!           P      a task that answered YIELD is not resumed yet: the NEXT directive is carried out first (the window
//!                  between a YIELD answer and the callback that resumes the task; `hold:skip` if nobody yielded)
//!           X<i>   the host cancels task i (EVENT_CANCEL); when directives run out every live task is cancelled
use crate::alloc_check as ca;
use crate::host::{self, EVENT_CANCEL, EVENT_NONE};
use crate::subtask::{self, Call, Params, Spec};
use crate::trace::{self, ev};
use crate::unit_host;
use std::cell::RefCell;
use std::future::Future;
use std::pin::Pin;
use std::task::{Context, Poll, Waker};
use wit_bindgen::rt::async_support::{Subtask, TaskCancelOnDrop};

#[derive(Clone, Copy, Debug)]
enum Instr {
    New(usize),
    Poll(usize),
    Await(usize),
    Drop(usize),
    Wait,
    Yield,
    Spawn(usize),
    Capture(usize),
    Wake(usize),
    WDrop(usize),
    Guard(usize),
    Return,
    Detach(usize),
}

#[derive(Clone, Copy, Debug)]
enum Dir {
    Adv(usize, u32),
    Dlv(usize),
    DlvEnd,
    Wake(usize),
    WDrop(usize),
    Start(usize),
    Cancel(usize),
    Hold,
}

#[derive(Clone, Copy, PartialEq, Debug)]
enum Driver {
    Start,
    Block,
}

struct Script {
    driver: Driver,
    specs: Vec<Spec>,
    bodies: Vec<Vec<Instr>>,
    dirs: Vec<Dir>,
}

const NWAKERS: usize = 4;

fn parse(line: &str) -> Option<Script> {
    let secs: Vec<&str> = line.split('|').map(|s| s.trim()).collect();
    if secs.len() != 4 {
        return None;
    }
    let driver = match secs[0] {
        "start" => Driver::Start,
        "block" => Driver::Block,
        _ => return None,
    };
    let specs: Vec<Spec> = secs[1].split_whitespace().map(Spec::parse).collect::<Option<_>>()?;
    let n = specs.len();
    let idx = |s: &str| -> Option<usize> { s.parse::<usize>().ok().filter(|k| *k < n) };
    let wk = |s: &str| -> Option<usize> { s.parse::<usize>().ok().filter(|k| *k < NWAKERS) };
    let nbodies = secs[2].split(';').count();
    let bd = |s: &str| -> Option<usize> { s.parse::<usize>().ok().filter(|j| *j >= 1 && *j < nbodies) };
    let mut bodies = Vec::new();
    for b in secs[2].split(';') {
        let mut body = Vec::new();
        for t in b.split_whitespace() {
            let (op, arg) = t.split_at(1);
            body.push(match op {
                "c" => Instr::New(idx(arg)?),
                "p" => Instr::Poll(idx(arg)?),
                "a" => Instr::Await(idx(arg)?),
                "d" => Instr::Drop(idx(arg)?),
                "w" if arg.is_empty() => Instr::Wait,
                "y" if arg.is_empty() => Instr::Yield,
                "r" if arg.is_empty() => Instr::Return,
                "s" => Instr::Spawn(bd(arg)?),
                "k" => Instr::Capture(wk(arg)?),
                "W" => Instr::Wake(wk(arg)?),
                "x" => Instr::WDrop(wk(arg)?),
                "g" => Instr::Guard(wk(arg)?),
                "m" => Instr::Detach(idx(arg)?),
                _ => return None,
            });
        }
        bodies.push(body);
    }
    let mut dirs = Vec::new();
    for t in secs[3].split_whitespace() {
        let (op, arg) = t.split_at(1);
        dirs.push(match op {
            "A" => {
                let (k, s) = arg.split_once(':')?;
                let s: u32 = s.parse().ok()?;
                if s > 4 {
                    return None;
                }
                Dir::Adv(idx(k)?, s)
            }
            "D" => Dir::Dlv(idx(arg)?),
            "U" if arg.is_empty() => Dir::DlvEnd,
            "P" if arg.is_empty() => Dir::Hold,
            "K" => Dir::Wake(wk(arg)?),
            "Z" => Dir::WDrop(wk(arg)?),
            "S" => Dir::Start(bd(arg)?),
            "X" => Dir::Cancel(arg.parse::<usize>().ok().filter(|i| *i >= 1 && *i <= 9)?),
            _ => return None,
        });
    }
    Some(Script { driver, specs, bodies, dirs })
}

// ------------------------------------------------------------------------ shared script state

#[derive(Default)]
struct Shared {
    driver_start: bool,
    /// body programs not yet started (taken by `s<j>` / `S<j>` / the root)
    bodies: Vec<Option<Vec<Instr>>>,
    calls: Vec<usize>,
    used: Vec<bool>,
    wakers: [Option<Waker>; NWAKERS],
    /// remaining host directives (block driver: consumed inside waitable-set.wait)
    dirs: Vec<Dir>,
    fuel: u32,
}

thread_local! {
    static SH: RefCell<Shared> = RefCell::new(Shared::default());
    /// call futures moved out of their body (`m<k>`): they outlive the tasks
    static DETACHED: RefCell<Vec<(usize, Fut)>> = RefCell::new(Vec::new());
}

fn wake_slot(n: usize, tok: &str) {
    // the clone keeps the borrow of SH out of the wake (which runs runtime + host code)
    let w = SH.with(|s| s.borrow().wakers[n].clone());
    match w {
        None => ev(&format!("{tok}{n}:none")),
        Some(w) => {
            ev(&format!("{tok}{n}"));
            w.wake_by_ref();
            drop(w);
        }
    }
}

fn drop_slot(n: usize, tok: &str) {
    let w = SH.with(|s| s.borrow_mut().wakers[n].take());
    match w {
        None => ev(&format!("{tok}{n}:none")),
        Some(w) => {
            ev(&format!("{tok}{n}"));
            drop(w);
        }
    }
}

// --------------------------------------------------------------------------------- bodies

type Fut = Pin<Box<dyn Future<Output = subtask::Results>>>;

struct Slot {
    k: usize,
    fut: Option<Fut>,
}

impl Drop for Slot {
    fn drop(&mut self) {
        if let Some(f) = self.fut.take() {
            ev(&format!("edrop{}", self.k));
            drop(f);
        }
    }
}

struct WakeGuard(usize);
impl Drop for WakeGuard {
    fn drop(&mut self) {
        if std::thread::panicking() {
            // a second panic while unwinding would abort the process: the guard stays silent
            ev(&format!("gwk{}:none", self.0));
        } else {
            wake_slot(self.0, "gwk");
        }
    }
}

/// everything a body owns; dropped (fields in this order) when the body finishes or is dropped
struct Locals {
    j: usize,
    finished: bool,
    guards: Vec<WakeGuard>,
    slots: Vec<Slot>,
}

impl Drop for Locals {
    fn drop(&mut self) {
        if !self.finished {
            ev(&format!("bdrop{}", self.j));
        }
    }
}

/// declared first in a root body (as in generated bindings), hence dropped last
struct TcGuard(Option<TaskCancelOnDrop>);

/// returns `Pending` once, without waking anybody
struct Suspend(bool);
impl Future for Suspend {
    type Output = ();
    fn poll(mut self: Pin<&mut Self>, _cx: &mut Context<'_>) -> Poll<()> {
        if self.0 {
            Poll::Ready(())
        } else {
            self.0 = true;
            Poll::Pending
        }
    }
}

async fn poll_once(f: &mut Fut) -> Poll<subtask::Results> {
    std::future::poll_fn(|cx| Poll::Ready(f.as_mut().poll(cx))).await
}

async fn current_waker() -> Waker {
    std::future::poll_fn(|cx| Poll::Ready(cx.waker().clone())).await
}

thread_local! {
    /// number of the current script: a body future that survived its script (only possible in the
    /// `SPAWNED` static of spawn.rs, after a panic between `spawn_local` and its adoption) is not run
    static EPOCH: std::cell::Cell<u64> = std::cell::Cell::new(0);
}

/// emits `in<j>` at every poll of body j
struct Traced {
    j: usize,
    epoch: u64,
    polled: bool,
    fut: Option<Pin<Box<dyn Future<Output = ()>>>>,
}
impl Future for Traced {
    type Output = ();
    fn poll(mut self: Pin<&mut Self>, cx: &mut Context<'_>) -> Poll<()> {
        if self.epoch != EPOCH.with(|e| e.get()) {
            // stale: its script is over and everything it points to is gone; never run or dropped
            if let Some(f) = self.fut.take() {
                std::mem::forget(f);
            }
            return Poll::Ready(());
        }
        ev(&format!("in{}", self.j));
        self.polled = true;
        self.fut.as_mut().unwrap().as_mut().poll(cx)
    }
}
impl Drop for Traced {
    fn drop(&mut self) {
        if self.epoch != EPOCH.with(|e| e.get()) {
            if let Some(f) = self.fut.take() {
                std::mem::forget(f);
            }
        } else if !self.polled {
            // dropped before its first poll: the body's own `bdrop` guard does not exist yet
            ev(&format!("bdrop{}", self.j));
        }
    }
}

fn make_body(j: usize, root: bool) -> Option<Traced> {
    let instrs = SH.with(|s| s.borrow_mut().bodies.get_mut(j).and_then(|b| b.take()))?;
    Some(Traced { j, epoch: EPOCH.with(|e| e.get()), polled: false, fut: Some(Box::pin(body(j, instrs, root))) })
}

/// New script: futures left in the `SPAWNED` static by an earlier (panicked) script are adopted and
/// finished as stale no-ops by a throw-away `block_on`; the same call makes `SPAWNED` allocate its
/// buffer before the leak baseline is taken (`drain(..)` keeps the capacity).
fn new_epoch() {
    EPOCH.with(|e| e.set(e.get() + 1));
    #[cfg(feature = "async-spawn")]
    {
        let _ = std::panic::catch_unwind(|| {
            wit_bindgen::block_on(async {
                wit_bindgen::spawn_local(async {});
            })
        });
    }
}

async fn body(j: usize, instrs: Vec<Instr>, root: bool) {
    let (ncalls, with_tc) = SH.with(|s| {
        let s = s.borrow();
        (s.calls.len(), root && s.driver_start)
    });
    let mut tc = TcGuard(if with_tc { Some(TaskCancelOnDrop::new()) } else { None });
    let mut loc = Locals { j, finished: false, guards: Vec::new(), slots: (0..ncalls).map(|k| Slot { k, fut: None }).collect() };
    for i in instrs {
        match i {
            Instr::New(k) => {
                let fresh = SH.with(|s| !std::mem::replace(&mut s.borrow_mut().used[k], true));
                if !fresh {
                    ev(&format!("new{k}:skip"));
                } else {
                    // SAFETY: the Call objects outlive every body (freed by `run` at the very end)
                    let cp = SH.with(|s| s.borrow().calls[k]) as *mut Call;
                    let call: &'static mut Call = unsafe { &mut *cp };
                    let params = Params::new(k, &call.spec);
                    ev(&format!("new{k}"));
                    loc.slots[k].fut = Some(Box::pin(call.call(params)));
                }
            }
            Instr::Poll(k) => match loc.slots[k].fut.as_mut() {
                None => ev(&format!("P{k}=none")),
                Some(f) => match poll_once(f).await {
                    Poll::Ready(res) => {
                        ev(&format!("P{k}=ready"));
                        loc.slots[k].fut = None;
                        drop(res);
                    }
                    Poll::Pending => ev(&format!("P{k}=pend")),
                },
            },
            Instr::Await(k) => loop {
                match loc.slots[k].fut.as_mut() {
                    None => {
                        ev(&format!("P{k}=none"));
                        break;
                    }
                    Some(f) => match poll_once(f).await {
                        Poll::Ready(res) => {
                            ev(&format!("P{k}=ready"));
                            loc.slots[k].fut = None;
                            drop(res);
                            break;
                        }
                        Poll::Pending => {
                            ev(&format!("P{k}=pend"));
                            Suspend(false).await;
                        }
                    },
                }
            },
            Instr::Drop(k) => match loc.slots[k].fut.take() {
                None => ev(&format!("drop{k}:none")),
                Some(f) => {
                    ev(&format!("drop{k}"));
                    drop(f);
                }
            },
            Instr::Wait => {
                ev("w");
                Suspend(false).await
            }
            Instr::Yield => {
                ev("y");
                wit_bindgen::yield_async().await
            }
            Instr::Spawn(c) => spawn(c),
            Instr::Capture(n) => {
                let w = current_waker().await;
                ev(&format!("cap{n}"));
                // the previous content (if any) is dropped after the store, outside the borrow
                let prev = SH.with(|s| s.borrow_mut().wakers[n].replace(w));
                drop(prev);
            }
            Instr::Wake(n) => wake_slot(n, "wk"),
            Instr::WDrop(n) => drop_slot(n, "wdrop"),
            Instr::Guard(n) => {
                ev(&format!("arm{n}"));
                loc.guards.push(WakeGuard(n));
            }
            Instr::Detach(k) => match loc.slots[k].fut.take() {
                None => ev(&format!("det{k}:none")),
                Some(f) => {
                    ev(&format!("det{k}"));
                    DETACHED.with(|d| d.borrow_mut().push((k, f)));
                }
            },
            Instr::Return => match tc.0.take() {
                Some(g) => {
                    ev("task.return");
                    g.forget();
                }
                None => ev("ret:skip"),
            },
        }
    }
    loc.finished = true;
    drop(loc);
    if let Some(g) = tc.0.take() {
        ev("task.return");
        g.forget();
    }
    ev(&format!("fin{j}"));
}

#[cfg(feature = "async-spawn")]
fn spawn(c: usize) {
    match make_body(c, false) {
        Some(f) => {
            ev(&format!("sp{c}"));
            wit_bindgen::spawn_local(f);
        }
        None => ev(&format!("sp{c}:skip")),
    }
}
#[cfg(not(feature = "async-spawn"))]
fn spawn(c: usize) {
    ev(&format!("sp{c}:off"));
}

// ------------------------------------------------------------------- driver `start`: the host

struct Task {
    id: usize,
    /// this task's context slot 0 (the mock host has one slot: swapped in around every call)
    ctx: usize,
    code: u32,
    alive: bool,
}

fn show(code: u32) {
    match code & 0xf {
        0 if code == 0 => ev("cb=exit"),
        1 if code == 1 => ev("cb=yield"),
        2 => ev(&format!("cb=wait:{}", code >> 4)),
        _ => ev(&format!("!cb-unknown:{code}")),
    }
}

fn invoke(t: &mut Task, what: &str, f: impl FnOnce() -> u32) {
    ev(&format!("T{}", t.id));
    ev(what);
    host::HOST.with(|h| h.borrow_mut().ctx0 = t.ctx);
    let code = f();
    t.ctx = host::HOST.with(|h| std::mem::replace(&mut h.borrow_mut().ctx0, 0));
    t.code = code;
    show(code);
    if code & 0xf == 0 || code & 0xf > 2 {
        t.alive = false;
        if t.ctx != 0 {
            ev(&format!("!ctx-left:{}", t.id));
        }
    }
}

fn trapped() -> bool {
    host::HOST.with(|h| h.borrow().trapped)
}

fn run_start(dirs: Vec<Dir>) {
    use wit_bindgen::rt::async_support::{callback, start_task};
    let mut tasks: Vec<Task> = Vec::new();
    let start = |tasks: &mut Vec<Task>, j: usize| match make_body(j, true) {
        None => ev(&format!("S{j}:skip")),
        Some(f) => {
            let mut t = Task { id: tasks.len() + 1, ctx: 0, code: 0, alive: true };
            invoke(&mut t, "ev(start)", || start_task(f) as u32);
            tasks.push(t);
        }
    };
    start(&mut tasks, 0);
    let mut dirs = dirs.into_iter().peekable();
    let mut fuel = 400;
    let mut hold = false;
    loop {
        fuel -= 1;
        if fuel == 0 {
            ev("!livelock");
            return;
        }
        if trapped() {
            ev("abort");
            return;
        }
        // tasks that yielded are called back first (EVENT_NONE), unless the host cancels them now or holds
        // them back for one directive (`P`)
        let yielded = if hold { None } else { tasks.iter().position(|t| t.alive && t.code & 0xf == 1) };
        if let Some(i) = yielded {
            let id = tasks[i].id;
            if matches!(dirs.peek(), Some(Dir::Hold)) {
                dirs.next();
                ev("hold");
                hold = true;
                continue;
            }
            if matches!(dirs.peek(), Some(Dir::Cancel(c)) if *c == id) {
                dirs.next();
                ev(&format!("X{id}"));
                invoke(&mut tasks[i], &format!("ev({EVENT_CANCEL},0,0)"), || unsafe { callback(EVENT_CANCEL, 0, 0) });
            } else {
                invoke(&mut tasks[i], "ev(0,0,0)", || unsafe { callback(EVENT_NONE, 0, 0) });
            }
            continue;
        }
        let waiting = |tasks: &Vec<Task>, set: u32| tasks.iter().position(|t| t.alive && t.code & 0xf == 2 && t.code >> 4 == set);
        // while holding, exactly one directive is carried out
        let was_hold = hold;
        hold = false;
        match dirs.next() {
            Some(Dir::Hold) => ev("hold:skip"),
            None if was_hold => continue,
            Some(Dir::Adv(k, st)) => host::advance(k, st),
            Some(Dir::Dlv(k)) => {
                let h = host::HOST.with(|h| h.borrow().call_handle[k]);
                let set = host::set_of(h);
                match waiting(&tasks, set) {
                    Some(i) if h != 0 && set != 0 && host::has_event(h) => {
                        let (e, c) = host::take_event(h).unwrap();
                        invoke(&mut tasks[i], &format!("ev({e},{h},{c})"), || unsafe { callback(e, h, c) });
                    }
                    _ => ev(&format!("dlv{k}:skip")),
                }
            }
            Some(Dir::DlvEnd) => {
                let cand = host::HOST.with(|h| {
                    let h = h.borrow();
                    h.ends.iter().filter(|(_, e)| e.pending.is_some() && e.set != 0).map(|(w, e)| (*w, e.set)).collect::<Vec<_>>()
                });
                match cand.into_iter().find_map(|(w, set)| waiting(&tasks, set).map(|i| (w, i))) {
                    Some((w, i)) => {
                        let (e, c) = host::take_event(w).unwrap();
                        invoke(&mut tasks[i], &format!("ev({e},{w},{c})"), || unsafe { callback(e, w, c) });
                    }
                    None => ev("dlvU:skip"),
                }
            }
            Some(Dir::Wake(n)) => wake_slot(n, "hwk"),
            Some(Dir::WDrop(n)) => drop_slot(n, "hwdrop"),
            Some(Dir::Start(j)) => start(&mut tasks, j),
            Some(Dir::Cancel(id)) => match tasks.iter().position(|t| t.alive && t.id == id) {
                Some(i) => {
                    ev(&format!("X{id}"));
                    invoke(&mut tasks[i], &format!("ev({EVENT_CANCEL},0,0)"), || unsafe { callback(EVENT_CANCEL, 0, 0) });
                }
                None => ev(&format!("X{id}:skip")),
            },
            None => match tasks.iter().position(|t| t.alive) {
                Some(i) => {
                    ev(&format!("X{}", tasks[i].id));
                    invoke(&mut tasks[i], &format!("ev({EVENT_CANCEL},0,0)"), || unsafe { callback(EVENT_CANCEL, 0, 0) });
                }
                None => return,
            },
        }
    }
}

// ------------------------------------------------------------------- driver `block`

/// Runtime code called from inside a built-in (`extern "C"`) must not unwind through it: a panic is
/// caught here, the host traps, and the wait answers EVENT_CANCEL (see host.rs) so that `block_on` ends.
fn guarded(f: impl FnOnce()) -> bool {
    let ok = std::panic::catch_unwind(std::panic::AssertUnwindSafe(f)).is_ok();
    if !ok {
        ev("panic");
        host::trap("panic-inside-wait");
    }
    ok
}

/// host directives of the `block` driver run inside `waitable-set.wait(set)` until a member is ready
fn on_wait(set: u32) {
    loop {
        if !host::ready_members(set).is_empty() || trapped() {
            return;
        }
        let out = SH.with(|s| {
            let mut s = s.borrow_mut();
            if s.fuel == 0 {
                return Err(());
            }
            s.fuel -= 1;
            Ok(if s.dirs.is_empty() { None } else { Some(s.dirs.remove(0)) })
        });
        match out {
            Err(()) => {
                ev("!livelock");
                host::trap("livelock");
                return;
            }
            Ok(Some(Dir::Adv(k, st))) => host::advance(k, st),
            Ok(Some(Dir::Dlv(k))) => ev(&format!("dlv{k}:skip")),
            Ok(Some(Dir::DlvEnd)) => ev("dlvU:skip"),
            Ok(Some(Dir::Wake(n))) => {
                if !guarded(|| wake_slot(n, "hwk")) {
                    return;
                }
            }
            Ok(Some(Dir::WDrop(n))) => {
                if !guarded(|| drop_slot(n, "hwdrop")) {
                    return;
                }
            }
            Ok(Some(Dir::Hold)) => ev("hold:skip"),
            Ok(Some(Dir::Start(j))) => ev(&format!("S{j}:skip")),
            Ok(Some(Dir::Cancel(i))) => ev(&format!("X{i}:skip")),
            Ok(None) => {
                // out of directives: the host completes the smallest unresolved subtask of the set,
                // else somebody wakes the smallest captured waker; else the task is deadlocked
                let sub = host::HOST.with(|h| {
                    h.borrow().subs.iter().find(|(_, s)| s.set == set && !host::resolved(s.state) && !s.cancel_requested).map(|(_, s)| s.k)
                });
                if let Some(k) = sub {
                    ev(&format!("auto{k}"));
                    host::advance(k, host::RETURNED);
                    continue;
                }
                let slot = SH.with(|s| s.borrow().wakers.iter().position(|w| w.is_some()));
                match slot {
                    Some(n) => {
                        if !guarded(|| wake_slot(n, "autowk")) {
                            return;
                        }
                        // a wake that does not make the set ready cannot help again
                        if host::ready_members(set).is_empty() && !guarded(|| drop_slot(n, "autodrop")) {
                            return;
                        }
                    }
                    None => {
                        ev("deadlock");
                        host::trap("deadlock");
                        return;
                    }
                }
            }
        }
    }
}

fn run_block() {
    host::HOST.with(|h| {
        let mut h = h.borrow_mut();
        h.on_wait = Some(on_wait);
        h.poll_budget = Some(400);
    });
    match make_body(0, true) {
        None => ev("S0:skip"),
        Some(f) => {
            ev("block.start");
            wit_bindgen::block_on(f);
            ev("block.end");
        }
    }
}

// ------------------------------------------------------------------------------------

fn run(s: &Script) {
    let calls: Vec<*mut Call> =
        s.specs.iter().enumerate().map(|(k, spec)| Box::into_raw(Box::new(Call { k, spec: *spec }))).collect();
    SH.with(|sh| {
        let mut sh = sh.borrow_mut();
        sh.driver_start = s.driver == Driver::Start;
        sh.bodies = s.bodies.iter().cloned().map(Some).collect();
        sh.calls = calls.iter().map(|c| *c as usize).collect();
        sh.used = vec![false; calls.len()];
        sh.dirs = if s.driver == Driver::Block { s.dirs.clone() } else { Vec::new() };
        sh.fuel = 400;
    });
    let r = std::panic::catch_unwind(std::panic::AssertUnwindSafe(|| match s.driver {
        Driver::Start => run_start(s.dirs.clone()),
        Driver::Block => run_block(),
    }));
    if r.is_err() {
        ev("panic");
    }
    // detached call futures are dropped now, outside every task
    let r3 = std::panic::catch_unwind(|| loop {
        let next = DETACHED.with(|d| {
            let mut d = d.borrow_mut();
            if d.is_empty() {
                None
            } else {
                Some(d.remove(0))
            }
        });
        match next {
            None => break,
            Some((k, f)) => {
                ev(&format!("detdrop{k}"));
                drop(f);
            }
        }
    });
    if r3.is_err() {
        ev("panic");
        // whatever is left must not run destructors in a later script
        DETACHED.with(|d| {
            for x in d.borrow_mut().drain(..) {
                std::mem::forget(x);
            }
        });
    }
    DETACHED.with(|d| *d.borrow_mut() = Vec::new());
    // wakers still captured are released now (they may hold the last reference to a task's state)
    let r2 = std::panic::catch_unwind(|| {
        for n in 0..NWAKERS {
            if SH.with(|s| s.borrow().wakers[n].is_some()) {
                drop_slot(n, "wend");
            }
        }
    });
    if r2.is_err() {
        ev("panic");
    }
    if r.is_ok() && r2.is_ok() && r3.is_ok() && !trapped() {
        let (sets, subs, ends, ctx) = host::HOST.with(|h| {
            let h = h.borrow();
            (h.sets.len(), h.subs.len(), h.ends.len(), h.ctx0)
        });
        if sets != 0 || subs != 0 || ends != 0 || ctx != 0 {
            ev(&format!("!host-leftovers:sets={sets}/subs={subs}/ends={ends}/ctx={}", (ctx != 0) as u8));
        }
    }
    for k in 0..calls.len() {
        let a = subtask::audit(k);
        if a != "ok" {
            ev(&format!("!audit{k}:{a}"));
        }
    }
    SH.with(|sh| *sh.borrow_mut() = Shared::default());
    for c in calls {
        unsafe { drop(Box::from_raw(c)) };
    }
}

pub fn handle(line: &str) -> String {
    host::reset(0);
    new_epoch();
    trace::reset();
    host::reset(0);
    unit_host::clear();
    SH.with(|sh| *sh.borrow_mut() = Shared::default());
    ca::clear_errors();
    let base = ca::live().0;
    trace::mark_panics(true);
    let ok = inner(line);
    trace::mark_panics(false);
    let leak = ca::live().0 as i64 - base as i64;
    if !ok {
        return "bad-script".into();
    }
    let (errs, first) = ca::errors();
    let panic_msg = trace::take_panic();
    let mut out = trace::take();
    let panicked = out.split(' ').any(|t| t == "panic");
    let detail = match first {
        Some(e) if errs > 0 => format!(":{}", e.what),
        _ => String::new(),
    };
    if panicked {
        out.push_str(&format!(" end:?:{errs}{detail}\t{panic_msg}"));
    } else {
        out.push_str(&format!(" end:{leak}:{errs}{detail}"));
    }
    out
}

fn inner(line: &str) -> bool {
    let Some(s) = parse(line) else { return false };
    host::reset(s.specs.len());
    host::HOST.with(|h| {
        let mut h = h.borrow_mut();
        for (k, sp) in s.specs.iter().enumerate() {
            h.call_cx[k] = sp.cx;
        }
    });
    subtask::reset(&s.specs);
    run(&s);
    subtask::cleanup();
    host::reset(0);
    unit_host::clear();
    true
}
