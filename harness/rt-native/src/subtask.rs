//! Instrumented implementation of `wit_bindgen::rt::async_support::Subtask` (what generated
//! bindings implement for every async import) with an ownership ledger.
//!
//! A call spec `C<size>:<alog>:<roff>:<nl>:<no>:<rl>:<st>:<cx>` describes one import call:
//!   size/2^alog   layout of the params+results area (`abi_layout`; 0 = nothing in memory)
//!   roff          `results_offset` (≤ size)
//!   nl, no        heap lists / owned handles among the parameters
//!   rl            heap lists in the results (allocated by the host through cabi_realloc)
//!   st            status the host reports at once (0 STARTING, 1 STARTED, 2 RETURNED)
//!   cx            the host's answer to a `subtask.cancel` (host.rs `subtask_cancel`)
//!
//! Trace tokens (k = call index; a trailing `!…` marks an anomaly the ledger saw):
//!   lower<k>   call<k>=<st>:<handle>   dl<k>   dlo<k>   lift<k>   free<k>   rdrop<k>   pdrop<k>
//! The host side of the contract is played here too (`on_state`): the host *reads* the parameter
//! area when the callee starts and *writes* the result area when it returns, and both check that
//! the area is still allocated and intact (`!hostread-dead`, `!hostwrite-dead`).
use crate::alloc_check as ca;
use crate::host;
use crate::trace::ev;
use std::alloc::Layout;
use std::cell::RefCell;
use wit_bindgen::rt::async_support::Subtask;

use crate::sym::cabi_realloc_export;

#[derive(Clone, Copy, Debug, Default)]
pub struct Spec {
    pub size: usize,
    pub alog: u32,
    pub roff: usize,
    pub nl: usize,
    pub no: usize,
    pub rl: usize,
    pub st: u32,
    pub cx: u32,
}

impl Spec {
    pub fn parse(tok: &str) -> Option<Spec> {
        let t = tok.strip_prefix('C')?;
        let v: Vec<usize> = t.split(':').map(|x| x.parse().ok()).collect::<Option<_>>()?;
        if v.len() != 8 || v[1] > 12 || v[2] > v[0] || v[3] > 4 || v[4] > 4 || v[5] > 4 || v[6] > 2 || v[7] > 2 {
            return None;
        }
        Some(Spec { size: v[0], alog: v[1] as u32, roff: v[2], nl: v[3], no: v[4], rl: v[5], st: v[6] as u32, cx: v[7] as u32 })
    }
}

#[derive(Clone, Copy, PartialEq, Debug)]
enum Own {
    /// still inside the Rust `Params` value (not lowered)
    Rust,
    /// lowered: raw pointers / handle indices in flight
    Lowered,
    Released,
}

/// Ledger of one call.
#[derive(Debug)]
pub struct Ledger {
    pub spec: Spec,
    lists: Own,
    owns: Own,
    list_ptrs: Vec<(usize, usize)>, // (ptr, len) of lowered parameter lists
    area: usize,
    results: usize,
    result_lists: Vec<(usize, usize)>,
    results_written: bool,
    lifted: u32,
}

thread_local! {
    pub static LEDGERS: RefCell<Vec<Ledger>> = RefCell::new(Vec::new());
}

const PMAGIC: u64 = 0x5041_5241_4d53_0000; // "PARAMS"
const RMAGIC: u64 = 0x5245_5355_4c54_0000; // "RESULT"
const LIST_LEN: usize = 24;

pub fn reset(specs: &[Spec]) {
    LEDGERS.with(|l| {
        *l.borrow_mut() = specs
            .iter()
            .map(|s| Ledger {
                spec: *s,
                lists: Own::Rust,
                owns: Own::Rust,
                list_ptrs: Vec::new(),
                area: 0,
                results: 0,
                result_lists: Vec::new(),
                results_written: false,
                lifted: 0,
            })
            .collect();
    });
    host::HOST.with(|h| h.borrow_mut().on_state = Some(on_state));
}

/// release whatever a (possibly buggy / panicked) run left behind, so that scripts are independent
pub fn cleanup() {
    LEDGERS.with(|l| {
        for led in std::mem::take(&mut *l.borrow_mut()) {
            if led.lists == Own::Lowered {
                for (p, n) in led.list_ptrs {
                    unsafe { drop(Vec::from_raw_parts(p as *mut u8, n, n)) };
                }
            }
            if led.lifted == 0 {
                for (p, n) in led.result_lists {
                    unsafe { drop(Vec::from_raw_parts(p as *mut u8, n, n)) };
                }
            }
        }
    });
}

fn area_ok(led: &Ledger) -> bool {
    if led.spec.size == 0 {
        return led.area == 0;
    }
    ca::is_live(led.area) == Some((led.spec.size, 1usize << led.spec.alog))
}

fn params_room(s: &Spec) -> bool {
    s.roff >= 8
}
fn results_room(s: &Spec) -> bool {
    s.size - s.roff >= 8
}

/// Host side: the callee of call `k` changed state.
fn on_state(k: usize, _from: u32, to: u32) {
    let mut flag = "";
    LEDGERS.with(|l| {
        let mut l = l.borrow_mut();
        let led = &mut l[k];
        if to == host::STARTED {
            // the host reads (lifts) the parameters now
            if !area_ok(led) {
                flag = "!hostread-dead";
            } else if params_room(&led.spec) && unsafe { (led.area as *const u64).read_unaligned() } != PMAGIC ^ k as u64 {
                flag = "!hostread-garbage";
            }
        }
        if to == host::RETURNED {
            // the host writes (lowers) the results now
            if !area_ok(led) {
                flag = "!hostwrite-dead";
            } else {
                if results_room(&led.spec) {
                    unsafe { (led.results as *mut u64).write_unaligned(RMAGIC ^ k as u64) };
                }
                for i in 0..led.spec.rl {
                    let p = unsafe { cabi_realloc_export(std::ptr::null_mut(), 0, 1, LIST_LEN) };
                    unsafe { std::ptr::write_bytes(p, i as u8 + 1, LIST_LEN) };
                    led.result_lists.push((p as usize, LIST_LEN));
                }
                led.results_written = true;
            }
        }
    });
    if !flag.is_empty() {
        ev(&format!("{flag}{k}"));
    }
}

// ------------------------------------------------------------------------------------------

pub struct Params {
    k: usize,
    lists: Vec<Vec<u8>>,
    /// owned resource handles (tokens)
    owns: Vec<u32>,
    live: bool,
}

impl Params {
    pub fn new(k: usize, spec: &Spec) -> Params {
        Params {
            k,
            lists: (0..spec.nl).map(|i| vec![i as u8 + 0x10; LIST_LEN]).collect(),
            owns: (0..spec.no).map(|i| 100 + i as u32).collect(),
            live: true,
        }
    }
}

impl Drop for Params {
    fn drop(&mut self) {
        if self.live {
            // never lowered: ordinary Rust destructor releases lists and handles
            LEDGERS.with(|l| {
                let mut l = l.borrow_mut();
                let led = &mut l[self.k];
                led.lists = Own::Released;
                led.owns = Own::Released;
            });
            ev(&format!("pdrop{}", self.k));
        }
    }
}

pub struct Results {
    k: usize,
    #[allow(dead_code)]
    lists: Vec<Vec<u8>>,
}

impl Drop for Results {
    fn drop(&mut self) {
        ev(&format!("rdrop{}", self.k));
    }
}

#[derive(Clone, Copy)]
pub struct Lower {
    k: usize,
    dst: usize,
}

/// The per-call object that implements `Subtask`.
pub struct Call {
    pub k: usize,
    pub spec: Spec,
}

unsafe impl Subtask for Call {
    type Params = Params;
    type ParamsLower = Lower;
    type Results = Results;

    fn abi_layout(&mut self) -> Layout {
        Layout::from_size_align(self.spec.size, 1 << self.spec.alog).unwrap()
    }

    fn results_offset(&mut self) -> usize {
        self.spec.roff
    }

    unsafe fn call_import(&mut self, params: Lower, results: *mut u8) -> u32 {
        let mut flag = "";
        LEDGERS.with(|l| {
            let mut l = l.borrow_mut();
            let led = &mut l[self.k];
            led.results = results as usize;
            if params.dst != led.area || results as usize != led.area.wrapping_add(led.spec.roff) {
                flag = "!call-bad-ptrs";
            }
        });
        if !flag.is_empty() {
            ev(&format!("{flag}{}", self.k));
        }
        host::import_call(self.k, self.spec.st)
    }

    unsafe fn params_lower(&mut self, mut params: Params, dst: *mut u8) -> Lower {
        let k = self.k;
        let mut flag = "";
        LEDGERS.with(|l| {
            let mut l = l.borrow_mut();
            let led = &mut l[k];
            led.area = dst as usize;
            if led.spec.size != 0 {
                ca::watch(dst as usize, k as u32);
            }
            if !area_ok(led) {
                flag = "!lower-bad-area";
            } else if params_room(&led.spec) {
                unsafe { (dst as *mut u64).write_unaligned(PMAGIC ^ k as u64) };
            }
            if led.lists != Own::Rust {
                flag = "!lower-twice";
            }
            // ownership of the lists moves into the lowered form (raw pointers)
            for v in std::mem::take(&mut params.lists) {
                let mut v = std::mem::ManuallyDrop::new(v.into_boxed_slice());
                led.list_ptrs.push((v.as_mut_ptr() as usize, v.len()));
            }
            led.lists = Own::Lowered;
            led.owns = Own::Lowered;
        });
        params.live = false;
        ev(&format!("lower{k}{flag}"));
        Lower { k, dst: dst as usize }
    }

    unsafe fn params_dealloc_lists(&mut self, lower: Lower) {
        let flag = dealloc(self.k, lower, false);
        ev(&format!("dl{}{flag}", self.k));
    }

    unsafe fn params_dealloc_lists_and_own(&mut self, lower: Lower) {
        let flag = dealloc(self.k, lower, true);
        ev(&format!("dlo{}{flag}", self.k));
    }

    unsafe fn results_lift(&mut self, src: *mut u8) -> Results {
        let k = self.k;
        let mut flag = "";
        let lists = LEDGERS.with(|l| {
            let mut l = l.borrow_mut();
            let led = &mut l[k];
            if src as usize != led.area.wrapping_add(led.spec.roff) {
                flag = "!lift-bad-ptr";
            } else if !area_ok(led) {
                flag = "!lift-dead-area";
            } else if !led.results_written {
                flag = "!lift-before-return";
            } else if results_room(&led.spec) && unsafe { (src as *const u64).read_unaligned() } != RMAGIC ^ k as u64 {
                flag = "!lift-garbage";
            }
            led.lifted += 1;
            if led.lifted > 1 {
                flag = "!lift-twice";
                return Vec::new();
            }
            led.result_lists
                .iter()
                .map(|&(p, n)| unsafe { Vec::from_raw_parts(p as *mut u8, n, n) })
                .collect::<Vec<_>>()
        });
        ev(&format!("lift{k}{flag}"));
        Results { k, lists }
    }
}

fn dealloc(k: usize, lower: Lower, own: bool) -> &'static str {
    LEDGERS.with(|l| {
        let mut l = l.borrow_mut();
        let led = &mut l[k];
        let mut flag = "";
        if lower.k != k || lower.dst != led.area {
            flag = "!dealloc-bad-lower";
        } else if !area_ok(led) {
            // an indirect parameter record would be read from freed memory
            flag = "!dealloc-dead-area";
        }
        if led.lists != Own::Lowered {
            return "!lists-freed-twice";
        }
        for (p, n) in led.list_ptrs.drain(..) {
            unsafe { drop(Vec::from_raw_parts(p as *mut u8, n, n)) };
        }
        led.lists = Own::Released;
        if own {
            if led.owns != Own::Lowered {
                return "!owns-released-twice";
            }
            led.owns = Own::Released;
        }
        flag
    })
}

/// End-of-script audit of one call's ledger: `ok` or the first inconsistency.
pub fn audit(k: usize) -> String {
    LEDGERS.with(|l| {
        let l = l.borrow();
        let led = &l[k];
        if led.lists == Own::Lowered {
            return "lists-leaked".to_string();
        }
        if led.results_written && led.lifted == 0 {
            return "results-never-lifted".to_string();
        }
        "ok".to_string()
    })
}
