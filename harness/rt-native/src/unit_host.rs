//! Host side of the internal `stream<()>` of the `inter-task-wakeup` feature (C23): the seven
//! `[…-unit]` built-ins of crates/guest-rust/src/rt/async_support/unit_stream.rs.
//!
//! Both ends are waitables in the shared handle table (`host::Host::ends`, so `waitable.join`,
//! `waitable-set.poll/wait/drop` see them); the copy state lives here.  Rules (DESIGN Appendix B,
//! stream part; the same text is lean/Witverif/Async/UnitHost.lean):
//!   read/write trap unless the end is idle; a read with no writer waiting BLOCKS (end copying);
//!   a write meeting a blocked read completes it: the write returns COMPLETED|1<<4 and the reader
//!   gets the pending event (EVENT_STREAM_READ, r, COMPLETED|1<<4) — the reader stays `copying`
//!   until that event is delivered or consumed by cancel-read; a write with no read waiting (or
//!   one whose read is already satisfied) BLOCKS; peer dropped → DROPPED|0;
//!   cancel-read/-write trap unless copying and (R) if the end is still in a waitable set; they
//!   return the pending event's code (consuming it) or CANCELLED|0; drop-* trap while copying.
//! Trace tokens: us.new=<r>:<w> us.read(<h>)=<code> us.write(<h>)=<code> us.cancel-read(<h>)=<code>
//! us.cancel-write(<h>)=<code> us.drop-r(<h>) us.drop-w(<h>)    (codes in decimal, BLOCKED = 4294967295)
use crate::host::{self, End, EVENT_STREAM_READ, EVENT_STREAM_WRITE, HOST};
use crate::trace::ev;
use std::cell::RefCell;

pub const BLOCKED: u32 = 0xffff_ffff;
pub const COMPLETED: u32 = 0;
pub const DROPPED: u32 = 1;
pub const CANCELLED: u32 = 2;

#[derive(Clone, Copy, PartialEq, Debug)]
enum St {
    Idle,
    Copying,
    Dropped,
}

#[derive(Clone, Copy, Debug)]
struct Unit {
    r: u32,
    w: u32,
    rs: St,
    ws: St,
}

thread_local! {
    static UNITS: RefCell<Vec<Unit>> = RefCell::new(Vec::new());
}

/// `host::reset` replaces the whole `Host` (hooks included): the first unit built-in after a reset
/// finds its hook missing, forgets the streams of the previous script and registers the hook again.
fn ensure_fresh() {
    let fresh = HOST.with(|h| {
        let mut h = h.borrow_mut();
        if h.take_hooks.iter().any(|f| *f as *const () as usize == on_take as *const () as usize) {
            false
        } else {
            h.take_hooks.push(on_take);
            true
        }
    });
    if fresh {
        UNITS.with(|u| u.borrow_mut().clear());
    }
}

/// free the table (engines call this before taking the leak baseline and after the script)
pub fn clear() {
    UNITS.with(|u| *u.borrow_mut() = Vec::new());
}

/// number of unit-stream ends that were never dropped (end-of-script leftovers)
#[allow(dead_code)]
pub fn live_ends() -> usize {
    ensure_fresh();
    UNITS.with(|u| u.borrow().iter().map(|x| (x.rs != St::Dropped) as usize + (x.ws != St::Dropped) as usize).sum())
}

/// a pending event of one of our ends was taken for delivery: the end leaves `copying`
fn on_take(h: u32, _e: u32, _c: u32) {
    UNITS.with(|u| {
        for x in u.borrow_mut().iter_mut() {
            if x.r == h && x.rs == St::Copying {
                x.rs = St::Idle;
            }
            if x.w == h && x.ws == St::Copying {
                x.ws = St::Idle;
            }
        }
    });
}

fn pending(h: u32) -> Option<(u32, u32)> {
    HOST.with(|hh| hh.borrow().ends.get(&h).and_then(|e| e.pending))
}
fn set_pending(h: u32, p: Option<(u32, u32)>) {
    HOST.with(|hh| {
        if let Some(e) = hh.borrow_mut().ends.get_mut(&h) {
            e.pending = p;
        }
    });
}

#[export_name = "[stream-new-unit]"]
pub unsafe extern "C" fn unit_new() -> u64 {
    ensure_fresh();
    let (r, w) = HOST.with(|h| {
        let mut h = h.borrow_mut();
        let r = h.next;
        let w = h.next + 1;
        h.next += 2;
        h.ends.insert(r, End::default());
        h.ends.insert(w, End::default());
        (r, w)
    });
    UNITS.with(|u| u.borrow_mut().push(Unit { r, w, rs: St::Idle, ws: St::Idle }));
    ev(&format!("us.new={r}:{w}"));
    ((w as u64) << 32) | r as u64
}

#[export_name = "[async-lower][stream-read-unit]"]
pub unsafe extern "C" fn unit_read(s: u32, _p: *mut u8, n: usize) -> u32 {
    let x = UNITS.with(|u| u.borrow().iter().position(|x| x.r == s && x.rs != St::Dropped));
    let Some(i) = x else {
        host::trap("us-read-unknown");
        ev(&format!("us.read({s})=trap"));
        return DROPPED;
    };
    let u0 = UNITS.with(|u| u.borrow()[i]);
    let code = if u0.rs != St::Idle {
        host::trap("us-read-not-idle");
        DROPPED
    } else if u0.ws == St::Dropped {
        DROPPED
    } else if u0.ws == St::Copying && pending(u0.w).is_none() && n > 0 {
        // a writer is blocked: rendezvous now, the writer learns by event
        set_pending(u0.w, Some((EVENT_STREAM_WRITE, COMPLETED | (1 << 4))));
        COMPLETED | (1 << 4)
    } else {
        UNITS.with(|u| u.borrow_mut()[i].rs = St::Copying);
        BLOCKED
    };
    ev(&format!("us.read({s})={code}"));
    code
}

#[export_name = "[async-lower][stream-write-unit]"]
pub unsafe extern "C" fn unit_write(s: u32, _p: *const u8, n: usize) -> u32 {
    let x = UNITS.with(|u| u.borrow().iter().position(|x| x.w == s && x.ws != St::Dropped));
    let Some(i) = x else {
        host::trap("us-write-unknown");
        ev(&format!("us.write({s})=trap"));
        return DROPPED;
    };
    let u0 = UNITS.with(|u| u.borrow()[i]);
    let code = if u0.ws != St::Idle {
        host::trap("us-write-not-idle");
        DROPPED
    } else if u0.rs == St::Dropped {
        DROPPED
    } else if u0.rs == St::Copying && pending(u0.r).is_none() && n > 0 {
        set_pending(u0.r, Some((EVENT_STREAM_READ, COMPLETED | (1 << 4))));
        COMPLETED | (1 << 4)
    } else {
        UNITS.with(|u| u.borrow_mut()[i].ws = St::Copying);
        BLOCKED
    };
    ev(&format!("us.write({s})={code}"));
    code
}

fn cancel(s: u32, reader: bool) -> u32 {
    let what = if reader { "read" } else { "write" };
    let x = UNITS.with(|u| {
        u.borrow().iter().position(|x| if reader { x.r == s && x.rs != St::Dropped } else { x.w == s && x.ws != St::Dropped })
    });
    let Some(i) = x else {
        host::trap("us-cancel-unknown");
        ev(&format!("us.cancel-{what}({s})=trap"));
        return CANCELLED;
    };
    let st = UNITS.with(|u| if reader { u.borrow()[i].rs } else { u.borrow()[i].ws });
    let code = if st != St::Copying {
        host::trap(if reader { "us-cancel-read-not-copying" } else { "us-cancel-write-not-copying" });
        CANCELLED
    } else {
        if host::set_of(s) != 0 {
            // (R) repo comment: a synchronous cancel traps while the end is a member of a set
            host::trap("cancel-while-in-set");
        }
        let c = match pending(s) {
            Some((_, c)) => {
                set_pending(s, None);
                c
            }
            None => CANCELLED,
        };
        UNITS.with(|u| {
            if reader {
                u.borrow_mut()[i].rs = St::Idle
            } else {
                u.borrow_mut()[i].ws = St::Idle
            }
        });
        c
    };
    ev(&format!("us.cancel-{what}({s})={code}"));
    code
}

#[export_name = "[stream-cancel-read-unit]"]
pub unsafe extern "C" fn unit_cancel_read(s: u32) -> u32 {
    cancel(s, true)
}

#[export_name = "[stream-cancel-write-unit]"]
pub unsafe extern "C" fn unit_cancel_write(s: u32) -> u32 {
    cancel(s, false)
}

fn drop_end(s: u32, reader: bool) {
    let x = UNITS.with(|u| {
        u.borrow().iter().position(|x| if reader { x.r == s && x.rs != St::Dropped } else { x.w == s && x.ws != St::Dropped })
    });
    match x {
        None => host::trap("us-drop-unknown"),
        Some(i) => {
            let u0 = UNITS.with(|u| u.borrow()[i]);
            let (mine, peer, peer_h, peer_ev) =
                if reader { (u0.rs, u0.ws, u0.w, EVENT_STREAM_WRITE) } else { (u0.ws, u0.rs, u0.r, EVENT_STREAM_READ) };
            if mine == St::Copying {
                host::trap(if reader { "us-drop-r-copying" } else { "us-drop-w-copying" });
            }
            // dropping a waitable removes it from its set
            HOST.with(|h| h.borrow_mut().ends.remove(&s));
            UNITS.with(|u| {
                if reader {
                    u.borrow_mut()[i].rs = St::Dropped
                } else {
                    u.borrow_mut()[i].ws = St::Dropped
                }
            });
            if peer == St::Copying && pending(peer_h).is_none() {
                set_pending(peer_h, Some((peer_ev, DROPPED)));
            }
        }
    }
    ev(&format!("us.drop-{}({s})", if reader { "r" } else { "w" }));
}

#[export_name = "[stream-drop-readable-unit]"]
pub unsafe extern "C" fn unit_drop_readable(s: u32) {
    drop_end(s, true)
}

#[export_name = "[stream-drop-writable-unit]"]
pub unsafe extern "C" fn unit_drop_writable(s: u32) {
    drop_end(s, false)
}
