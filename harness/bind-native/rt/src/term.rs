//! Value terms — the syntax read by lean/Drivers/AbiParse.lean `toVal`:
//! `(b 0|1) (i N) (f32 BITS) (f64 BITS) (c N) (s byte…) (l v…) (r v…) (fl 0101…) (var i v?) (e i) (h n)`
#[derive(Clone, Debug, PartialEq)]
pub enum Term {
    B(bool),
    I(i128),
    F32(u32),
    F64(u64),
    C(u32),
    S(Vec<u8>),
    L(Vec<Term>),
    R(Vec<Term>),
    Fl(Vec<bool>),
    Var(u32, Option<Box<Term>>),
    E(u32),
    H(u32),
}

pub fn parse(s: &str) -> Result<Term, String> {
    let toks = tokenize(s);
    let mut pos = 0;
    let t = parse_at(&toks, &mut pos)?;
    if pos != toks.len() {
        return Err(format!("trailing tokens in term: {s}"));
    }
    Ok(t)
}

fn tokenize(s: &str) -> Vec<&str> {
    let mut out = Vec::new();
    let b = s.as_bytes();
    let mut i = 0;
    while i < b.len() {
        match b[i] {
            b' ' => i += 1,
            b'(' | b')' => {
                out.push(&s[i..i + 1]);
                i += 1
            }
            _ => {
                let st = i;
                while i < b.len() && !matches!(b[i], b' ' | b'(' | b')') {
                    i += 1
                }
                out.push(&s[st..i]);
            }
        }
    }
    out
}

fn parse_at(t: &[&str], pos: &mut usize) -> Result<Term, String> {
    let err = |m: &str| Err(format!("term: {m}"));
    if t.get(*pos) != Some(&"(") {
        return err("expected (");
    }
    *pos += 1;
    let head = *t.get(*pos).ok_or("term: eof")?;
    *pos += 1;
    let mut atoms: Vec<&str> = Vec::new();
    let mut subs: Vec<Term> = Vec::new();
    loop {
        match t.get(*pos) {
            None => return err("eof"),
            Some(&")") => {
                *pos += 1;
                break;
            }
            Some(&"(") => subs.push(parse_at(t, pos)?),
            Some(a) => {
                atoms.push(a);
                *pos += 1
            }
        }
    }
    let num = |i: usize| -> Result<i128, String> {
        atoms.get(i).ok_or("term: missing atom".to_string())?.parse::<i128>().map_err(|e| e.to_string())
    };
    Ok(match head {
        "b" => Term::B(num(0)? == 1),
        "i" => Term::I(num(0)?),
        "f32" => Term::F32(num(0)? as u32),
        "f64" => Term::F64(num(0)? as u64),
        "c" => Term::C(num(0)? as u32),
        "s" => Term::S(atoms.iter().map(|a| a.parse::<u8>().map_err(|e| e.to_string())).collect::<Result<_, _>>()?),
        "l" => Term::L(subs),
        "r" => Term::R(subs),
        "fl" => Term::Fl(atoms.first().map(|a| a.bytes().map(|c| c == b'1').collect()).unwrap_or_default()),
        "var" => Term::Var(num(0)? as u32, subs.into_iter().next().map(Box::new)),
        "e" => Term::E(num(0)? as u32),
        "h" => Term::H(num(0)? as u32),
        other => return Err(format!("term: unknown head {other}")),
    })
}

impl Term {
    pub fn show(&self, out: &mut String) {
        use core::fmt::Write;
        match self {
            Term::B(b) => write!(out, "(b {})", *b as u8).unwrap(),
            Term::I(n) => write!(out, "(i {n})").unwrap(),
            Term::F32(b) => write!(out, "(f32 {b})").unwrap(),
            Term::F64(b) => write!(out, "(f64 {b})").unwrap(),
            Term::C(c) => write!(out, "(c {c})").unwrap(),
            Term::S(bs) => {
                out.push_str("(s");
                for b in bs {
                    write!(out, " {b}").unwrap()
                }
                out.push(')')
            }
            Term::L(vs) | Term::R(vs) => {
                out.push_str(if matches!(self, Term::L(_)) { "(l" } else { "(r" });
                for v in vs {
                    out.push(' ');
                    v.show(out)
                }
                out.push(')')
            }
            Term::Fl(bs) => {
                out.push_str("(fl");
                if !bs.is_empty() {
                    out.push(' ');
                    for b in bs {
                        out.push(if *b { '1' } else { '0' })
                    }
                }
                out.push(')')
            }
            Term::Var(i, None) => write!(out, "(var {i})").unwrap(),
            Term::Var(i, Some(v)) => {
                write!(out, "(var {i} ").unwrap();
                v.show(out);
                out.push(')')
            }
            Term::E(i) => write!(out, "(e {i})").unwrap(),
            Term::H(h) => write!(out, "(h {h})").unwrap(),
        }
    }
    pub fn items(&self) -> &[Term] {
        match self {
            Term::L(v) | Term::R(v) => v,
            other => panic!("bn-rt: expected list/record term, got {other:?}"),
        }
    }
}
