//! `Show` (Rust value -> value term) and `Build` (value term -> Rust value) for every Rust type the
//! generator maps a WIT type to.  Impls for the *named* generated types (records, variants, enums,
//! flags, resources) are emitted per world by the bind-native emitter from the syntax tree of the
//! generated bindings; everything anonymous is covered here by trait dispatch, so the emitter never
//! has to print a Rust type itself.
//!
//! Allocation discipline (C06): `Build` produces values as user code would (tag G), with spare
//! capacity on some strings/vectors so that the shrinking path of `into_boxed_slice` is exercised.
//! Borrowed forms (`&str`, `&[T]`, `&T`) are built by leaking an owned value and registering it in
//! `KEEP`; `release_keep()` frees them after the call.
use crate::term::Term;
use core::fmt::Write;
use std::collections::{BTreeMap, HashMap};

pub trait Show {
    fn show(&self, out: &mut String);
    /// as a variant payload / result arm: `()` prints nothing
    fn show_payload(&self, out: &mut String) {
        out.push(' ');
        self.show(out)
    }
    /// `Vec<u8>`/`&[u8]` under `raw_strings` are printed as lists; canonicalised by type in python
    fn show_list(items: &[Self], out: &mut String)
    where
        Self: Sized,
    {
        out.push_str("(l");
        for i in items {
            out.push(' ');
            i.show(out)
        }
        out.push(')')
    }
}

pub trait Build: Sized {
    fn build(t: &Term) -> Self;
    fn build_payload(t: Option<&Term>) -> Self {
        Self::build(t.expect("bn-rt: variant payload missing"))
    }
    fn build_vec(t: &Term) -> Vec<Self> {
        let items = t.items();
        let mut v = Vec::with_capacity(items.len() + items.len() % 3);
        for i in items {
            v.push(Self::build(i))
        }
        v
    }
}

macro_rules! ints {
    ($($t:ty),*) => {$(
        impl Show for $t { fn show(&self, out: &mut String) { write!(out, "(i {})", self).unwrap() } }
        impl Build for $t {
            fn build(t: &Term) -> Self { match t { Term::I(n) => *n as $t, o => panic!("bn-rt: int expected, got {o:?}") } }
        }
    )*};
}
ints!(i8, i16, i32, i64, u16, u32, u64);

impl Show for u8 {
    fn show(&self, out: &mut String) {
        write!(out, "(i {})", self).unwrap()
    }
}
impl Build for u8 {
    fn build(t: &Term) -> Self {
        match t {
            Term::I(n) => *n as u8,
            o => panic!("bn-rt: int expected, got {o:?}"),
        }
    }
    // a string term handed to a `Vec<u8>` (raw_strings)
    fn build_vec(t: &Term) -> Vec<u8> {
        match t {
            Term::S(b) => {
                let mut v = Vec::with_capacity(b.len() + b.len() % 3);
                v.extend_from_slice(b);
                v
            }
            _ => {
                let items = t.items();
                let mut v = Vec::with_capacity(items.len() + items.len() % 3);
                for i in items {
                    v.push(u8::build(i))
                }
                v
            }
        }
    }
}

impl Show for bool {
    fn show(&self, out: &mut String) {
        write!(out, "(b {})", *self as u8).unwrap()
    }
}
impl Build for bool {
    fn build(t: &Term) -> Self {
        matches!(t, Term::B(true))
    }
}
impl Show for f32 {
    fn show(&self, out: &mut String) {
        write!(out, "(f32 {})", self.to_bits()).unwrap()
    }
}
impl Build for f32 {
    fn build(t: &Term) -> Self {
        match t {
            Term::F32(b) => f32::from_bits(*b),
            o => panic!("bn-rt: f32 expected, got {o:?}"),
        }
    }
}
impl Show for f64 {
    fn show(&self, out: &mut String) {
        write!(out, "(f64 {})", self.to_bits()).unwrap()
    }
}
impl Build for f64 {
    fn build(t: &Term) -> Self {
        match t {
            Term::F64(b) => f64::from_bits(*b),
            o => panic!("bn-rt: f64 expected, got {o:?}"),
        }
    }
}
impl Show for char {
    fn show(&self, out: &mut String) {
        write!(out, "(c {})", *self as u32).unwrap()
    }
}
impl Build for char {
    fn build(t: &Term) -> Self {
        match t {
            Term::C(c) => char::from_u32(*c).expect("bn-rt: invalid char in script"),
            o => panic!("bn-rt: char expected, got {o:?}"),
        }
    }
}
impl Show for () {
    fn show(&self, _out: &mut String) {}
    fn show_payload(&self, _out: &mut String) {}
}
impl Build for () {
    fn build(_t: &Term) -> Self {}
    fn build_payload(_t: Option<&Term>) -> Self {}
}

fn show_bytes(b: &[u8], out: &mut String) {
    out.push_str("(s");
    for x in b {
        write!(out, " {x}").unwrap()
    }
    out.push(')')
}
impl Show for str {
    fn show(&self, out: &mut String) {
        show_bytes(self.as_bytes(), out)
    }
}
impl Show for String {
    fn show(&self, out: &mut String) {
        show_bytes(self.as_bytes(), out)
    }
}
impl Build for String {
    fn build(t: &Term) -> Self {
        match t {
            Term::S(b) => {
                let mut s = String::with_capacity(b.len() + b.len() % 3);
                s.push_str(core::str::from_utf8(b).expect("bn-rt: scripted string is not UTF-8"));
                s
            }
            o => panic!("bn-rt: string expected, got {o:?}"),
        }
    }
}
impl<T: Show> Show for [T] {
    fn show(&self, out: &mut String) {
        T::show_list(self, out)
    }
}
impl<T: Show> Show for Vec<T> {
    fn show(&self, out: &mut String) {
        T::show_list(self, out)
    }
}
impl<T: Build> Build for Vec<T> {
    fn build(t: &Term) -> Self {
        T::build_vec(t)
    }
}
impl<T: Show, const N: usize> Show for [T; N] {
    fn show(&self, out: &mut String) {
        T::show_list(self, out)
    }
}
impl<T: Build, const N: usize> Build for [T; N] {
    fn build(t: &Term) -> Self {
        let items = t.items();
        assert_eq!(items.len(), N, "bn-rt: fixed-length list arity");
        core::array::from_fn(|i| T::build(&items[i]))
    }
}
impl<T: Show + ?Sized> Show for &T {
    fn show(&self, out: &mut String) {
        (**self).show(out)
    }
    fn show_payload(&self, out: &mut String) {
        (**self).show_payload(out)
    }
}
impl<T: Show + ?Sized> Show for Box<T> {
    fn show(&self, out: &mut String) {
        (**self).show(out)
    }
}
impl<T: Build> Build for Box<T> {
    fn build(t: &Term) -> Self {
        Box::new(T::build(t))
    }
}
impl<T: Show> Show for Option<T> {
    fn show(&self, out: &mut String) {
        match self {
            None => out.push_str("(var 0)"),
            Some(v) => {
                out.push_str("(var 1");
                v.show_payload(out);
                out.push(')')
            }
        }
    }
}
impl<T: Build> Build for Option<T> {
    fn build(t: &Term) -> Self {
        match t {
            Term::Var(0, _) => None,
            Term::Var(1, p) => Some(T::build_payload(p.as_deref())),
            o => panic!("bn-rt: option expected, got {o:?}"),
        }
    }
}
impl<T: Show, E: Show> Show for Result<T, E> {
    fn show(&self, out: &mut String) {
        match self {
            Ok(v) => {
                out.push_str("(var 0");
                v.show_payload(out);
                out.push(')')
            }
            Err(v) => {
                out.push_str("(var 1");
                v.show_payload(out);
                out.push(')')
            }
        }
    }
}
impl<T: Build, E: Build> Build for Result<T, E> {
    fn build(t: &Term) -> Self {
        match t {
            Term::Var(0, p) => Ok(T::build_payload(p.as_deref())),
            Term::Var(1, p) => Err(E::build_payload(p.as_deref())),
            o => panic!("bn-rt: result expected, got {o:?}"),
        }
    }
}
impl<K: Show, V: Show> Show for BTreeMap<K, V> {
    fn show(&self, out: &mut String) {
        out.push_str("(l");
        for (k, v) in self {
            out.push_str(" (r ");
            k.show(out);
            out.push(' ');
            v.show(out);
            out.push(')')
        }
        out.push(')')
    }
}
impl<K: Build + Ord, V: Build> Build for BTreeMap<K, V> {
    fn build(t: &Term) -> Self {
        t.items().iter().map(|e| (K::build(&e.items()[0]), V::build(&e.items()[1]))).collect()
    }
}
impl<K: Show, V: Show> Show for HashMap<K, V> {
    fn show(&self, out: &mut String) {
        out.push_str("(l");
        for (k, v) in self {
            out.push_str(" (r ");
            k.show(out);
            out.push(' ');
            v.show(out);
            out.push(')')
        }
        out.push(')')
    }
}
impl<K: Build + core::hash::Hash + Eq, V: Build> Build for HashMap<K, V> {
    fn build(t: &Term) -> Self {
        t.items().iter().map(|e| (K::build(&e.items()[0]), V::build(&e.items()[1]))).collect()
    }
}

macro_rules! tuples {
    ($(($($n:tt $t:ident),+))*) => {$(
        impl<$($t: Show),+> Show for ($($t,)+) {
            fn show(&self, out: &mut String) {
                out.push_str("(r");
                $( out.push(' '); self.$n.show(out); )+
                out.push(')')
            }
        }
        impl<$($t: Build),+> Build for ($($t,)+) {
            fn build(t: &Term) -> Self {
                let items = t.items();
                ($($t::build(&items[$n]),)+)
            }
        }
    )*};
}
tuples! {
    (0 A)
    (0 A, 1 B)
    (0 A, 1 B, 2 C)
    (0 A, 1 B, 2 C, 3 D)
    (0 A, 1 B, 2 C, 3 D, 4 E)
    (0 A, 1 B, 2 C, 3 D, 4 E, 5 F)
    (0 A, 1 B, 2 C, 3 D, 4 E, 5 F, 6 G)
    (0 A, 1 B, 2 C, 3 D, 4 E, 5 F, 6 G, 7 H)
    (0 A, 1 B, 2 C, 3 D, 4 E, 5 F, 6 G, 7 H, 8 I)
    (0 A, 1 B, 2 C, 3 D, 4 E, 5 F, 6 G, 7 H, 8 I, 9 J)
    (0 A, 1 B, 2 C, 3 D, 4 E, 5 F, 6 G, 7 H, 8 I, 9 J, 10 K)
    (0 A, 1 B, 2 C, 3 D, 4 E, 5 F, 6 G, 7 H, 8 I, 9 J, 10 K, 11 L)
}

// ------------------------------------------------------------------ borrowed forms

struct Kept {
    ptr: *mut u8,
    len: usize,
    drop: unsafe fn(*mut u8, usize),
}
static mut KEEP: Vec<Kept> = Vec::new();

#[allow(static_mut_refs)]
fn keep(k: Kept) {
    unsafe { KEEP.push(k) }
}

/// free everything leaked for borrowed arguments (call after the import returned)
#[allow(static_mut_refs)]
pub fn release_keep() {
    let ks = unsafe { core::mem::take(&mut KEEP) };
    for k in ks.into_iter().rev() {
        unsafe { (k.drop)(k.ptr, k.len) }
    }
}

unsafe fn drop_str(p: *mut u8, len: usize) {
    drop(Box::from_raw(core::ptr::slice_from_raw_parts_mut(p, len) as *mut str))
}
unsafe fn drop_slice<T>(p: *mut u8, len: usize) {
    drop(Box::from_raw(core::ptr::slice_from_raw_parts_mut(p as *mut T, len)))
}
unsafe fn drop_one<T>(p: *mut u8, _len: usize) {
    drop(Box::from_raw(p as *mut T))
}

impl<'a> Build for &'a str {
    fn build(t: &Term) -> Self {
        let b = String::build(t).into_boxed_str();
        let len = b.len();
        let p = Box::into_raw(b) as *mut u8;
        keep(Kept { ptr: p, len, drop: drop_str });
        unsafe { core::str::from_utf8_unchecked(core::slice::from_raw_parts(p, len)) }
    }
}
impl<'a, T: Build> Build for &'a [T] {
    fn build(t: &Term) -> Self {
        let b = T::build_vec(t).into_boxed_slice();
        let len = b.len();
        let p = Box::into_raw(b) as *mut T;
        keep(Kept { ptr: p as *mut u8, len, drop: drop_slice::<T> });
        unsafe { core::slice::from_raw_parts(p, len) }
    }
}
impl<'a, T: Build> Build for &'a T {
    fn build(t: &Term) -> Self {
        let p: *mut T = Box::into_raw(Box::new(T::build(t)));
        keep(Kept { ptr: p as *mut u8, len: 0, drop: drop_one::<T> });
        unsafe { &*p }
    }
}

/// the record/tuple term of the arguments of a call
pub fn show_args(parts: &[&dyn Fn(&mut String)]) -> String {
    let mut s = String::from("(r");
    for p in parts {
        s.push(' ');
        p(&mut s)
    }
    s.push(')');
    s
}

// ------------------------------------------------------------------ Consume: what user code does with a value

/// What the stub does with a value it received, as user code would: everything is dropped, except that own
/// handles of *exported* resources (generated impl) follow the seeded policy: drop the handle, `into_inner` it and
/// drop or keep the payload, look at it first.  Anonymous types recurse; borrowed forms are left alone.
pub trait Consume: Sized {
    fn consume(self) {}
}
macro_rules! consume_leaf { ($($t:ty),*) => {$( impl Consume for $t {} )*}; }
consume_leaf!(bool, u8, u16, u32, u64, i8, i16, i32, i64, f32, f64, char, String, ());
impl<T: ?Sized> Consume for &T {}
impl<T: Consume> Consume for Vec<T> {
    fn consume(self) {
        for x in self {
            x.consume()
        }
    }
}
impl<T: Consume, const N: usize> Consume for [T; N] {
    fn consume(self) {
        for x in self {
            x.consume()
        }
    }
}
impl<T: Consume> Consume for Box<T> {
    fn consume(self) {
        (*self).consume()
    }
}
impl<T: Consume> Consume for Option<T> {
    fn consume(self) {
        if let Some(x) = self {
            x.consume()
        }
    }
}
impl<T: Consume, E: Consume> Consume for Result<T, E> {
    fn consume(self) {
        match self {
            Ok(x) => x.consume(),
            Err(x) => x.consume(),
        }
    }
}
impl<K: Consume, V: Consume> Consume for BTreeMap<K, V> {
    fn consume(self) {
        for (k, v) in self {
            k.consume();
            v.consume()
        }
    }
}
impl<K: Consume, V: Consume> Consume for HashMap<K, V> {
    fn consume(self) {
        for (k, v) in self {
            k.consume();
            v.consume()
        }
    }
}
macro_rules! consume_tuples {
    ($(($($n:tt $t:ident),+))*) => {$(
        impl<$($t: Consume),+> Consume for ($($t,)+) {
            fn consume(self) { $( self.$n.consume(); )+ }
        }
    )*};
}
consume_tuples! {
    (0 A)
    (0 A, 1 B)
    (0 A, 1 B, 2 C)
    (0 A, 1 B, 2 C, 3 D)
    (0 A, 1 B, 2 C, 3 D, 4 E)
    (0 A, 1 B, 2 C, 3 D, 4 E, 5 F)
    (0 A, 1 B, 2 C, 3 D, 4 E, 5 F, 6 G)
    (0 A, 1 B, 2 C, 3 D, 4 E, 5 F, 6 G, 7 H)
    (0 A, 1 B, 2 C, 3 D, 4 E, 5 F, 6 G, 7 H, 8 I)
    (0 A, 1 B, 2 C, 3 D, 4 E, 5 F, 6 G, 7 H, 8 I, 9 J)
    (0 A, 1 B, 2 C, 3 D, 4 E, 5 F, 6 G, 7 H, 8 I, 9 J, 10 K)
    (0 A, 1 B, 2 C, 3 D, 4 E, 5 F, 6 G, 7 H, 8 I, 9 J, 10 K, 11 L)
}
