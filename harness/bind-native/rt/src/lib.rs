//! bn-rt: runtime of the batch binaries emitted by harness/bind-native (see ../README.md).
pub mod alloc;
pub mod server;
pub mod term;
pub mod value;

pub use server::{emit, harness, import_event, next_policy, note, phase_mark, serve, stash, stub_enter, stub_ret, Driver, Export, Item};
pub use term::Term;
pub use value::{release_keep, Build, Consume, Show};

#[global_allocator]
static GLOBAL: alloc::Ledger = alloc::Ledger;
