//! Line server of a batch binary.  One request per line on stdin, fields separated by `|`;
//! every request gets exactly one final answer line, possibly preceded by `IMPORT|…` event lines
//! or `EVENT|text` lines (guest-side observations: no answer) 
//! (IMPORT: the guest called an import / intrinsic: the peer then sends further requests, ending with
//! `RETURN|bits`, which are served re-entrantly from inside the import symbol).
//!
//! Requests
//!   HOSTMEM|spec;spec…        spec = size,align,hex,relocs,at ; relocs = off:target/… ;
//!                             target = bK (address of block K of this request) | dN (dangling N)
//!                             | aADDR ; `at` empty = allocate (tag H), else write at that address
//!                             -> ok|addr,addr…
//!   SCRIPT|key|term           value the stub of export `key` returns on its next call -> ok
//!   CALL|key|bits,bits…       raw canonical-ABI call of export `key` -> ret|bits|<report>
//!   POST|key|bits             its cabi_post_* -> ret||<report>
//!   DRIVE|key|term            call import `key` through the generated safe API with the given
//!                             argument tuple -> ret|<result term>|<report>
//!   DRIVE|key|term|keep      same, but the result is stashed (-> ret|<term> #<stash index>|…); UNSTASH|idx drops it
//!   POLICY|seed              seeds the stubs' user-code policy (drop / into_inner / keep the payload / re-wrap)
//!   READ|addr,len;…           -> ok|hex;hex…|live flags (1 = inside one live ledger block)
//!   VERIFY                    redzone / poison scan of every G/H block of the process -> ok|errs
//!   RETURN|bits               (inside an IMPORT event only)
//!   QUIT
//! <report> = obs=key=term;…|allocs=addr:size:align:tag:live:idx,…|frees=addr:size:align:tag:by:old:idx,…
//!            |errs=kind:addr:size:align:expsize:expalign,…|notes=…;…
use crate::alloc::{self, Mark, TAG_G, TAG_X};
use crate::term::{self, Term};
use std::collections::{HashMap, VecDeque};
use std::io::{BufRead, Write};

pub struct Export {
    pub key: &'static str,
    pub call: unsafe fn(&[u64]) -> u64,
    pub post: Option<unsafe fn(u64)>,
}
pub struct Driver {
    pub key: &'static str,
    /// `keep`: stash the result instead of dropping it (dropped later by `UNSTASH`)
    pub drive: fn(&Term, bool) -> String,
}
pub struct Item {
    pub name: &'static str,
    pub exports: &'static [Export],
    pub drivers: &'static [Driver],
}

struct Srv {
    items: &'static [&'static Item],
    scripts: HashMap<String, VecDeque<Term>>,
    obs: Vec<String>,
    notes: Vec<String>,
    stash: Vec<Option<Box<dyn std::any::Any>>>,
    start: Option<Mark>,
}
static mut SRV: Option<Srv> = None;

#[allow(static_mut_refs)]
fn srv() -> &'static mut Srv {
    unsafe { SRV.as_mut().expect("bn-rt: server not started") }
}

/// run harness code (tag X) from inside guest-tagged execution
pub fn harness<R>(f: impl FnOnce() -> R) -> R {
    alloc::with_tag(TAG_X, f)
}

/// called by a generated export stub: the argument values it received
pub fn stub_enter(key: &str, args: String) {
    harness(|| srv().obs.push(format!("{key}={args}")))
}

/// the scripted return value of the stub (parsed under tag X; the stub builds the Rust value under G)
pub fn stub_ret(key: &str) -> Term {
    harness(|| {
        srv()
            .scripts
            .get_mut(key)
            .and_then(|q| q.pop_front())
            .unwrap_or_else(|| panic!("bn-rt: no scripted return value for {key}"))
    })
}

/// keep a value alive across requests (results of imports the scenario wants the guest to hold)
pub fn stash(v: Box<dyn std::any::Any>) -> usize {
    harness(|| {
        srv().stash.push(Some(v));
        srv().stash.len() - 1
    })
}

/// a guest-side observation that must keep its place among the import events (payload created / taken /
/// dropped): printed at once as `EVENT|text`, no answer expected
pub fn emit(text: &str) {
    let old = alloc::set_tag(TAG_X);
    out(&format!("EVENT|{text}"));
    alloc::set_tag(old);
}

static mut POLICY: u64 = 0x9E3779B97F4A7C15;

/// next pseudo-random choice (0..n) of the user-code policy of the stubs (what to do with a received own
/// handle of an exported resource, whether to re-wrap a fresh one); seeded by `POLICY|seed`
pub fn next_policy(n: u64) -> u64 {
    unsafe {
        let mut x = POLICY;
        x ^= x << 13;
        x ^= x >> 7;
        x ^= x << 17;
        POLICY = x;
        (x >> 33) % n
    }
}

/// record the current allocation index under a name (`mark:<name>:<index>` in the notes): lets the peer
/// count events of a sub-phase of a request
pub fn phase_mark(name: &str) {
    let n = alloc::mark().n;
    harness(|| srv().notes.push(format!("mark:{name}:{n}")))
}

/// free-form trace record (user-level drops, …)
pub fn note(s: String) {
    harness(|| srv().notes.push(s))
}

fn out(line: &str) {
    let so = std::io::stdout();
    let mut l = so.lock();
    l.write_all(line.as_bytes()).unwrap();
    l.write_all(b"\n").unwrap();
    l.flush().unwrap();
}

/// a generated `[verif-import]…` symbol was called by the guest: tell the peer, serve its requests
/// until `RETURN|bits`
pub fn import_event(key: &str, args: &[u64]) -> u64 {
    let old = alloc::set_tag(TAG_X);
    let a: Vec<String> = args.iter().map(|x| x.to_string()).collect();
    out(&format!("IMPORT|{key}|{}", a.join(",")));
    let r = serve_loop(true);
    alloc::set_tag(old);
    r
}

fn hex(b: &[u8]) -> String {
    let mut s = String::with_capacity(b.len() * 2);
    for x in b {
        s.push_str(&format!("{x:02x}"));
    }
    s
}
fn unhex(s: &str) -> Vec<u8> {
    (0..s.len() / 2).map(|i| u8::from_str_radix(&s[2 * i..2 * i + 2], 16).unwrap()).collect()
}

fn report(m: Mark, obs_from: usize, notes_from: usize) -> String {
    let s = srv();
    let obs = s.obs[obs_from..].join(";");
    let notes = s.notes[notes_from..].join(";");
    let allocs: Vec<String> = alloc::allocated_since(m)
        .iter()
        .filter(|(_, e)| e.tag != TAG_X)
        .map(|(i, e)| format!("{}:{}:{}:{}:{}:{}", e.addr, e.size, e.align, e.tag as char, e.live, i))
        .collect();
    let frees: Vec<String> = alloc::freed_since(m)
        .iter()
        .filter(|(e, _, _)| e.tag != TAG_X)
        .map(|(e, old, i)| format!("{}:{}:{}:{}:{}:{}:{}", e.addr, e.size, e.align, e.tag as char, e.freed_by as char, *old as u8, i))
        .collect();
    let mut errs: Vec<String> = alloc::errors_since(m)
        .iter()
        .map(|e| format!("{}:{}:{}:{}:{}:{}", e.kind, e.addr, e.size, e.align, e.exp_size, e.exp_align))
        .collect();
    errs.extend(alloc::verify_since(m).iter().map(|e| format!("{}:{}:{}:{}:0:0", e.kind, e.addr, e.size, e.align)));
    format!("obs={obs}|allocs={}|frees={}|errs={}|notes={notes}", allocs.join(","), frees.join(","), errs.join(","))
}

fn find_export(key: &str) -> Option<&'static Export> {
    srv().items.iter().flat_map(|i| i.exports.iter()).find(|e| e.key == key)
}
fn find_driver(key: &str) -> Option<&'static Driver> {
    srv().items.iter().flat_map(|i| i.drivers.iter()).find(|e| e.key == key)
}

fn bits_list(s: &str) -> Vec<u64> {
    if s.is_empty() {
        vec![]
    } else {
        s.split(',').map(|x| x.parse::<u64>().expect("bits")).collect()
    }
}

fn hostmem(spec: &str) -> String {
    struct B {
        addr: usize,
        relocs: Vec<(usize, String)>,
    }
    let mut blocks = Vec::new();
    for sp in spec.split(';').filter(|x| !x.is_empty()) {
        let f: Vec<&str> = sp.split(',').collect();
        let size: usize = f[0].parse().unwrap();
        let align: usize = f[1].parse().unwrap();
        let bytes = unhex(f[2]);
        assert_eq!(bytes.len(), size, "bn-rt: HOSTMEM size/bytes mismatch");
        let relocs: Vec<(usize, String)> = f[3]
            .split('/')
            .filter(|x| !x.is_empty())
            .map(|r| {
                let (o, t) = r.split_once(':').unwrap();
                (o.parse().unwrap(), t.to_string())
            })
            .collect();
        let addr = if f.len() > 4 && !f[4].is_empty() { f[4].parse().unwrap() } else { alloc::host_alloc(size, align) };
        if size > 0 {
            unsafe { core::ptr::copy_nonoverlapping(bytes.as_ptr(), addr as *mut u8, size) };
        }
        blocks.push(B { addr, relocs });
    }
    for b in &blocks {
        for (o, t) in &b.relocs {
            let v: u64 = match t.as_bytes()[0] {
                b'b' => blocks[t[1..].parse::<usize>().unwrap()].addr as u64,
                b'd' | b'a' => t[1..].parse().unwrap(),
                _ => panic!("bn-rt: bad reloc target {t}"),
            };
            unsafe { core::ptr::write_unaligned((b.addr + o) as *mut u64, v) };
        }
    }
    format!("ok|{}", blocks.iter().map(|b| b.addr.to_string()).collect::<Vec<_>>().join(","))
}

fn read(spec: &str) -> String {
    let mut hx = Vec::new();
    let mut live = Vec::new();
    for r in spec.split(';').filter(|x| !x.is_empty()) {
        let (a, l) = r.split_once(',').unwrap();
        let (a, l): (usize, usize) = (a.parse().unwrap(), l.parse().unwrap());
        // never fault inside the arena; outside it (stack / statics) trust the pointer only if it
        // is the address of something the guest handed out — python only asks for such ranges
        if l > (1 << 26) || a < 4096 && l > 0 {
            hx.push("unreadable".to_string());
            live.push("0".to_string());
            continue;
        }
        let b = unsafe { core::slice::from_raw_parts(a as *const u8, l) };
        hx.push(hex(b));
        live.push(if alloc::in_live_block(a, l) { "1".into() } else { "0".to_string() });
    }
    format!("ok|{}|{}", hx.join(";"), live.join(";"))
}

fn panic_msg(e: Box<dyn std::any::Any + Send>) -> String {
    let s = if let Some(s) = e.downcast_ref::<&str>() {
        s.to_string()
    } else if let Some(s) = e.downcast_ref::<String>() {
        s.clone()
    } else {
        "?".into()
    };
    s.replace(['|', '\n'], " ")
}

/// serve requests; returns at EOF/QUIT (top level) or at `RETURN` (nested)
fn serve_loop(nested: bool) -> u64 {
    let stdin = std::io::stdin();
    let mut line = String::new();
    loop {
        line.clear();
        if stdin.lock().read_line(&mut line).unwrap() == 0 {
            std::process::exit(if nested { 3 } else { 0 });
        }
        let l = line.trim_end_matches('\n');
        let f: Vec<&str> = l.split('|').collect();
        match f[0] {
            "QUIT" => std::process::exit(0),
            "RETURN" if nested => return f.get(1).and_then(|x| x.parse::<u64>().ok()).unwrap_or(0),
            "HOSTMEM" => out(&hostmem(f.get(1).copied().unwrap_or(""))),
            "READ" => out(&read(f.get(1).copied().unwrap_or(""))),
            "SCRIPT" => match term::parse(f[2]) {
                Ok(t) => {
                    srv().scripts.entry(f[1].to_string()).or_default().push_back(t);
                    out("ok")
                }
                Err(e) => out(&format!("error|{e}")),
            },
            "POLICY" => {
                unsafe { POLICY = f[1].parse::<u64>().unwrap_or(1) | 1 };
                out("ok")
            }
            "VERIFY" => {
                let m = srv().start.unwrap();
                let errs: Vec<String> = alloc::verify_since(m).iter().map(|e| format!("{}:{}:{}:{}", e.kind, e.addr, e.size, e.align)).collect();
                out(&format!("ok|{}", errs.join(",")))
            }
            "CALL" | "POST" => {
                let Some(e) = find_export(f[1]) else {
                    out(&format!("error|unknown export {}", f[1]));
                    continue;
                };
                let args = bits_list(f.get(2).copied().unwrap_or(""));
                let (o0, n0) = (srv().obs.len(), srv().notes.len());
                let m = alloc::mark();
                let old = alloc::set_tag(TAG_G);
                let r = if f[0] == "CALL" {
                    Some(unsafe { (e.call)(&args) })
                } else {
                    if let Some(p) = e.post {
                        unsafe { p(args[0]) }
                    }
                    None
                };
                alloc::set_tag(old);
                out(&format!("ret|{}|{}", r.map(|x| x.to_string()).unwrap_or_default(), report(m, o0, n0)));
            }
            "DRIVE" => {
                let Some(d) = find_driver(f[1]) else {
                    out(&format!("error|unknown import driver {}", f[1]));
                    continue;
                };
                let t = match term::parse(f[2]) {
                    Ok(t) => t,
                    Err(e) => {
                        out(&format!("error|{e}"));
                        continue;
                    }
                };
                let (o0, n0) = (srv().obs.len(), srv().notes.len());
                let m = alloc::mark();
                let old = alloc::set_tag(TAG_G);
                let keep = f.get(3).copied() == Some("keep");
                let r = std::panic::catch_unwind(std::panic::AssertUnwindSafe(|| (d.drive)(&t, keep)));
                alloc::set_tag(old);
                match r {
                    Ok(s) => out(&format!("ret|{s}|{}", report(m, o0, n0))),
                    Err(e) => out(&format!("panic|{}", panic_msg(e))),
                }
            }
            "UNSTASH" => {
                let idx: usize = f[1].parse().unwrap();
                let v = srv().stash.get_mut(idx).and_then(|x| x.take());
                let (o0, n0) = (srv().obs.len(), srv().notes.len());
                let m = alloc::mark();
                let old = alloc::set_tag(TAG_G);
                let had = v.is_some();
                drop(v);
                alloc::set_tag(old);
                out(&format!("ret|{}|{}", had as u8, report(m, o0, n0)));
            }
            other => out(&format!("error|unknown request {other}")),
        }
    }
}

pub fn serve(items: &'static [&'static Item]) -> ! {
    unsafe {
        #[allow(static_mut_refs)]
        {
            SRV = Some(Srv { items, scripts: HashMap::new(), obs: Vec::new(), notes: Vec::new(), stash: Vec::new(), start: None });
        }
    }
    srv().start = Some(alloc::mark());
    if std::env::args().nth(1).as_deref() == Some("--list") {
        for i in items {
            for e in i.exports {
                println!("export {} {}", i.name, e.key);
            }
            for d in i.drivers {
                println!("driver {} {}", i.name, d.key);
            }
        }
        std::process::exit(0);
    }
    std::panic::set_hook(Box::new(|_| {}));
    serve_loop(false);
    std::process::exit(0)
}
