//! Ledger allocator of the batch binary (C06).
//!
//! * bump allocation in one arena mapped at a fixed LOW address (so that every heap pointer fits
//!   in 32 bits: generated Rust casts exported-resource reps through `u32`, which is lossless on
//!   wasm32 only), never reusing memory;
//! * a redzone of `RZ` bytes (0xA5) before and after every block, verified on free and on demand;
//! * freed blocks are filled with 0xDD and stay poisoned for the rest of the process
//!   (use-after-free writes are found by `verify`, reads produce garbage values);
//! * a side table (own mapping, never allocated from the arena) records for every block
//!   address, size, align, the *tag* active when it was allocated (X harness, G guest/user code,
//!   H host-provided buffer) and its state; every free is checked against it: unknown pointer,
//!   double free, size/align different from the allocation => error record.
use core::alloc::{GlobalAlloc, Layout};
use core::ptr;

pub const ARENA_BASE: usize = 0x1000_0000;
pub const ARENA_SIZE: usize = 0x6000_0000; // 1.5 GiB of address space, committed lazily
pub const RZ: usize = 16;
const MAX_ENTRIES: usize = 1 << 23;
const MAX_FREES: usize = 1 << 23;
const MAX_ERRS: usize = 256;

pub const TAG_X: u8 = b'X';
pub const TAG_G: u8 = b'G';
pub const TAG_H: u8 = b'H';

#[derive(Clone, Copy)]
#[repr(C)]
pub struct Entry {
    pub addr: u32,
    pub size: u32,
    pub align: u32,
    pub tag: u8,
    pub live: u8,
    pub freed_by: u8,
    pub _pad: u8,
}

#[derive(Clone, Copy, Debug)]
pub struct ErrRec {
    pub kind: &'static str,
    pub addr: usize,
    pub size: usize,
    pub align: usize,
    pub exp_size: usize,
    pub exp_align: usize,
}

struct State {
    init: bool,
    next: usize,
    entries: *mut Entry,
    n: usize,
    frees: *mut u32, // indices into entries, in order of deallocation
    nfrees: usize,
    errs: [Option<ErrRec>; MAX_ERRS],
    nerrs: usize,
    tag: u8,
}

static mut ST: State = State {
    init: false,
    next: 0,
    entries: ptr::null_mut(),
    n: 0,
    frees: ptr::null_mut(),
    nfrees: 0,
    errs: [None; MAX_ERRS],
    nerrs: 0,
    tag: TAG_X,
};

extern "C" {
    fn mmap(addr: *mut u8, len: usize, prot: i32, flags: i32, fd: i32, off: i64) -> *mut u8;
    fn abort() -> !;
}
const PROT_RW: i32 = 3;
const MAP_PRIVATE: i32 = 0x02;
const MAP_ANONYMOUS: i32 = 0x20;
const MAP_NORESERVE: i32 = 0x4000;
const MAP_FIXED_NOREPLACE: i32 = 0x100000;

#[allow(static_mut_refs)]
unsafe fn st() -> &'static mut State {
    &mut ST
}

unsafe fn init() {
    let s = st();
    let a = mmap(
        ARENA_BASE as *mut u8,
        ARENA_SIZE,
        PROT_RW,
        MAP_PRIVATE | MAP_ANONYMOUS | MAP_NORESERVE | MAP_FIXED_NOREPLACE,
        -1,
        0,
    );
    if a as usize != ARENA_BASE {
        abort();
    }
    let e = mmap(
        ptr::null_mut(),
        MAX_ENTRIES * core::mem::size_of::<Entry>(),
        PROT_RW,
        MAP_PRIVATE | MAP_ANONYMOUS | MAP_NORESERVE,
        -1,
        0,
    );
    let f = mmap(ptr::null_mut(), MAX_FREES * 4, PROT_RW, MAP_PRIVATE | MAP_ANONYMOUS | MAP_NORESERVE, -1, 0);
    if (e as isize) == -1 || (f as isize) == -1 {
        abort();
    }
    s.entries = e as *mut Entry;
    s.frees = f as *mut u32;
    s.next = ARENA_BASE + 64;
    s.init = true;
}

fn push_err(s: &mut State, e: ErrRec) {
    if s.nerrs < MAX_ERRS {
        s.errs[s.nerrs] = Some(e);
    }
    s.nerrs += 1;
}

/// index of the entry whose block starts at `addr` (entries are sorted by address: bump allocation)
unsafe fn find(s: &State, addr: usize) -> Option<usize> {
    let (mut lo, mut hi) = (0usize, s.n);
    while lo < hi {
        let mid = (lo + hi) / 2;
        let a = (*s.entries.add(mid)).addr as usize;
        if a == addr {
            return Some(mid);
        }
        if a < addr {
            lo = mid + 1
        } else {
            hi = mid
        }
    }
    None
}

pub struct Ledger;

unsafe impl GlobalAlloc for Ledger {
    unsafe fn alloc(&self, l: Layout) -> *mut u8 {
        if !st().init {
            init();
        }
        let s = st();
        let align = l.align().max(1);
        let start = (s.next + RZ + align - 1) / align * align;
        let end = start + l.size() + RZ;
        if end > ARENA_BASE + ARENA_SIZE || s.n >= MAX_ENTRIES {
            abort();
        }
        ptr::write_bytes((start - RZ) as *mut u8, 0xA5, RZ);
        ptr::write_bytes((start + l.size()) as *mut u8, 0xA5, RZ);
        s.next = end;
        *s.entries.add(s.n) = Entry {
            addr: start as u32,
            size: l.size() as u32,
            align: l.align() as u32,
            tag: s.tag,
            live: 1,
            freed_by: 0,
            _pad: 0,
        };
        s.n += 1;
        start as *mut u8
    }

    unsafe fn dealloc(&self, p: *mut u8, l: Layout) {
        let s = st();
        let addr = p as usize;
        match find(s, addr) {
            None => push_err(
                s,
                ErrRec { kind: "free-of-unallocated-pointer", addr, size: l.size(), align: l.align(), exp_size: 0, exp_align: 0 },
            ),
            Some(i) => {
                let e = &mut *s.entries.add(i);
                if e.live == 0 {
                    push_err(
                        s,
                        ErrRec {
                            kind: "double-free",
                            addr,
                            size: l.size(),
                            align: l.align(),
                            exp_size: e.size as usize,
                            exp_align: e.align as usize,
                        },
                    );
                    return;
                }
                if e.size as usize != l.size() || e.align as usize != l.align() {
                    push_err(
                        s,
                        ErrRec {
                            kind: "free-with-wrong-layout",
                            addr,
                            size: l.size(),
                            align: l.align(),
                            exp_size: e.size as usize,
                            exp_align: e.align as usize,
                        },
                    );
                }
                if !redzones_ok(e) {
                    push_err(
                        s,
                        ErrRec {
                            kind: "write-outside-block",
                            addr,
                            size: e.size as usize,
                            align: e.align as usize,
                            exp_size: 0,
                            exp_align: 0,
                        },
                    );
                }
                e.live = 0;
                e.freed_by = s.tag;
                ptr::write_bytes(addr as *mut u8, 0xDD, e.size as usize);
                if s.nfrees < MAX_FREES {
                    *s.frees.add(s.nfrees) = i as u32;
                    s.nfrees += 1;
                }
            }
        }
    }
}

unsafe fn redzones_ok(e: &Entry) -> bool {
    let a = e.addr as usize;
    let pre = core::slice::from_raw_parts((a - RZ) as *const u8, RZ);
    let post = core::slice::from_raw_parts((a + e.size as usize) as *const u8, RZ);
    pre.iter().all(|b| *b == 0xA5) && post.iter().all(|b| *b == 0xA5)
}

// ------------------------------------------------------------------ API for the server

/// run `f` with allocations attributed to `tag`
pub fn with_tag<R>(tag: u8, f: impl FnOnce() -> R) -> R {
    let old = unsafe { core::mem::replace(&mut st().tag, tag) };
    let r = f();
    unsafe { st().tag = old };
    r
}
pub fn set_tag(tag: u8) -> u8 {
    unsafe { core::mem::replace(&mut st().tag, tag) }
}

#[derive(Clone, Copy)]
pub struct Mark {
    pub n: usize,
    pub nfrees: usize,
    pub nerrs: usize,
}

pub fn mark() -> Mark {
    let s = unsafe { st() };
    Mark { n: s.n, nfrees: s.nfrees, nerrs: s.nerrs }
}

/// blocks allocated since `m` (all tags) with their allocation index
pub fn allocated_since(m: Mark) -> Vec<(usize, Entry)> {
    with_tag(TAG_X, || {
        let s = unsafe { st() };
        let n = s.n;
        (m.n..n).map(|i| (i, unsafe { *s.entries.add(i) })).collect()
    })
}

/// blocks freed since `m` (in order), with the index telling whether they predate the mark
pub fn freed_since(m: Mark) -> Vec<(Entry, bool, usize)> {
    with_tag(TAG_X, || {
        let s = unsafe { st() };
        let n = s.nfrees;
        (m.nfrees..n)
            .map(|k| unsafe {
                let i = *s.frees.add(k) as usize;
                (*s.entries.add(i), i < m.n, i)
            })
            .collect()
    })
}

pub fn errors_since(m: Mark) -> Vec<ErrRec> {
    with_tag(TAG_X, || {
        let s = unsafe { st() };
        (m.nerrs..s.nerrs.min(MAX_ERRS)).filter_map(|i| s.errs[i]).collect()
    })
}

/// Is `[addr, addr+len)` inside one live block?  (len 0: true)
pub fn in_live_block(addr: usize, len: usize) -> bool {
    if len == 0 {
        return true;
    }
    let s = unsafe { st() };
    // last entry with start <= addr
    let (mut lo, mut hi) = (0usize, s.n);
    while lo < hi {
        let mid = (lo + hi) / 2;
        if unsafe { (*s.entries.add(mid)).addr as usize } <= addr {
            lo = mid + 1
        } else {
            hi = mid
        }
    }
    if lo == 0 {
        return false;
    }
    let e = unsafe { *s.entries.add(lo - 1) };
    e.live == 1 && addr + len <= e.addr as usize + e.size as usize
}

pub fn in_arena(addr: usize) -> bool {
    addr >= ARENA_BASE && addr < ARENA_BASE + ARENA_SIZE
}

/// poison / redzone scan of every block allocated since `m` with a G or H tag: returns error records
pub fn verify_since(m: Mark) -> Vec<ErrRec> {
    with_tag(TAG_X, || {
        let s = unsafe { st() };
        let mut out = Vec::new();
        for i in m.n..s.n {
            let e = unsafe { *s.entries.add(i) };
            if e.tag == TAG_X {
                continue;
            }
            if !unsafe { redzones_ok(&e) } {
                out.push(ErrRec { kind: "write-outside-block", addr: e.addr as usize, size: e.size as usize, align: e.align as usize, exp_size: 0, exp_align: 0 });
            }
            if e.live == 0 {
                let b = unsafe { core::slice::from_raw_parts(e.addr as usize as *const u8, e.size as usize) };
                if !b.iter().all(|x| *x == 0xDD) {
                    out.push(ErrRec { kind: "write-after-free", addr: e.addr as usize, size: e.size as usize, align: e.align as usize, exp_size: 0, exp_align: 0 });
                }
            }
        }
        out
    })
}

/// host-side allocation (what `cabi_realloc(0, 0, align, size)` would return): size 0 => dangling `align`
pub fn host_alloc(size: usize, align: usize) -> usize {
    if size == 0 {
        return align.max(1);
    }
    with_tag(TAG_H, || unsafe { Ledger.alloc(Layout::from_size_align(size, align.max(1)).unwrap()) as usize })
}
