//! bind-native (emitter half) — see ../README.md.
//!
//! usage: bind-native emit <batch dir> <spec file>
//!
//! The spec file has one line per item:  `<idx> <config> <hex wit text>` where config is
//! `own=owning|borrowing|dup,std=0|1,merge=0|1,map=btree|hash,raw=0|1`.  For every item the REAL Rust
//! generator (`wit_bindgen_rust::Opts::build().generate`) is run in-process with hook H3 active
//! (`WIT_BINDGEN_VERIF=1`), the produced bindings are parsed with `syn`, and glue is appended:
//!   * `impl bn_rt::Show/Build` for every *named* generated type (structure taken from the syntax
//!     tree of the generated text, never from a second model of the generator's naming rules),
//!   * `impl Guest… for BnStub` whose method signatures are copied token-for-token from the generated
//!     traits (placed in modules of the same nesting depth so relative `super::` paths resolve),
//!   * one raw `extern "C"` trampoline per exported core function (+ `cabi_post_*`),
//!   * a definition of every `[verif-import]…` symbol the bindings declare (forwarding to the peer),
//!   * one driver per imported function calling it through the generated safe API.
//! Output: `<dir>/Cargo.toml`, `src/main.rs`, `src/w<idx>.rs`, `manifest.jsonl`.
use anyhow::{anyhow, bail, Context, Result};
use heck::{ToSnakeCase, ToUpperCamelCase};
use quote::ToTokens;
use std::collections::{BTreeMap, BTreeSet};
use std::fmt::Write as _;
use std::panic::{catch_unwind, AssertUnwindSafe};
use wit_bindgen_core::{abi::AbiVariant, abi::WasmType, Files, WorldGenerator};
use wit_parser::*;

// ------------------------------------------------------------------ type terms (as harness/abi-trace)

fn ty_term(r: &Resolve, t: &Type) -> String {
    match t {
        Type::Bool => "bool".into(),
        Type::U8 => "u8".into(),
        Type::S8 => "s8".into(),
        Type::U16 => "u16".into(),
        Type::S16 => "s16".into(),
        Type::U32 => "u32".into(),
        Type::S32 => "s32".into(),
        Type::U64 => "u64".into(),
        Type::S64 => "s64".into(),
        Type::F32 => "f32".into(),
        Type::F64 => "f64".into(),
        Type::Char => "char".into(),
        Type::String => "string".into(),
        Type::ErrorContext => "errctx".into(),
        Type::Id(id) => match &r.types[*id].kind {
            TypeDefKind::Type(t) => ty_term(r, t),
            TypeDefKind::List(t) => format!("(list {})", ty_term(r, t)),
            TypeDefKind::FixedLengthList(t, n) => format!("(flist {} {n})", ty_term(r, t)),
            TypeDefKind::Map(k, v) => format!("(map {} {})", ty_term(r, k), ty_term(r, v)),
            TypeDefKind::Record(rec) => {
                let mut s = "(record".to_string();
                for f in &rec.fields {
                    write!(s, " {}", ty_term(r, &f.ty)).unwrap();
                }
                s + ")"
            }
            TypeDefKind::Tuple(t) => {
                let mut s = "(tuple".to_string();
                for f in &t.types {
                    write!(s, " {}", ty_term(r, f)).unwrap();
                }
                s + ")"
            }
            TypeDefKind::Flags(f) => format!("(flags {})", f.flags.len()),
            TypeDefKind::Enum(e) => format!("(enum {})", e.cases.len()),
            TypeDefKind::Variant(v) => {
                let mut s = "(variant".to_string();
                for c in &v.cases {
                    write!(s, " {}", opt_term(r, c.ty.as_ref())).unwrap();
                }
                s + ")"
            }
            TypeDefKind::Option(t) => format!("(option {})", ty_term(r, t)),
            TypeDefKind::Result(res) => {
                format!("(result {} {})", opt_term(r, res.ok.as_ref()), opt_term(r, res.err.as_ref()))
            }
            TypeDefKind::Handle(Handle::Own(_)) => "own".into(),
            TypeDefKind::Handle(Handle::Borrow(_)) => "borrow".into(),
            TypeDefKind::Future(t) => format!("(future {})", opt_term(r, t.as_ref())),
            TypeDefKind::Stream(t) => format!("(stream {})", opt_term(r, t.as_ref())),
            TypeDefKind::Resource => "resource".into(),
            TypeDefKind::Unknown => "unknown".into(),
        },
    }
}

/// as `ty_term`, but handles carry their resource: `own@<interface>.<resource>`
fn ann_term(r: &Resolve, t: &Type) -> String {
    match t {
        Type::Bool => "bool".into(),
        Type::U8 => "u8".into(),
        Type::S8 => "s8".into(),
        Type::U16 => "u16".into(),
        Type::S16 => "s16".into(),
        Type::U32 => "u32".into(),
        Type::S32 => "s32".into(),
        Type::U64 => "u64".into(),
        Type::S64 => "s64".into(),
        Type::F32 => "f32".into(),
        Type::F64 => "f64".into(),
        Type::Char => "char".into(),
        Type::String => "string".into(),
        Type::ErrorContext => "errctx".into(),
        Type::Id(id) => match &r.types[*id].kind {
            TypeDefKind::Type(t) => ann_term(r, t),
            TypeDefKind::List(t) => format!("(list {})", ann_term(r, t)),
            TypeDefKind::FixedLengthList(t, n) => format!("(flist {} {n})", ann_term(r, t)),
            TypeDefKind::Map(k, v) => format!("(map {} {})", ann_term(r, k), ann_term(r, v)),
            TypeDefKind::Record(rec) => {
                let mut s = "(record".to_string();
                for f in &rec.fields {
                    write!(s, " {}", ann_term(r, &f.ty)).unwrap();
                }
                s + ")"
            }
            TypeDefKind::Tuple(t) => {
                let mut s = "(tuple".to_string();
                for f in &t.types {
                    write!(s, " {}", ann_term(r, f)).unwrap();
                }
                s + ")"
            }
            TypeDefKind::Flags(f) => format!("(flags {})", f.flags.len()),
            TypeDefKind::Enum(e) => format!("(enum {})", e.cases.len()),
            TypeDefKind::Variant(v) => {
                let mut s = "(variant".to_string();
                for c in &v.cases {
                    write!(s, " {}", ann_opt_term(r, c.ty.as_ref())).unwrap();
                }
                s + ")"
            }
            TypeDefKind::Option(t) => format!("(option {})", ann_term(r, t)),
            TypeDefKind::Result(res) => {
                format!("(result {} {})", ann_opt_term(r, res.ok.as_ref()), ann_opt_term(r, res.err.as_ref()))
            }
            TypeDefKind::Handle(Handle::Own(id)) => format!("own@{}", res_name(r, *id)),
            TypeDefKind::Handle(Handle::Borrow(id)) => format!("borrow@{}", res_name(r, *id)),
            TypeDefKind::Future(t) => format!("(future {})", ann_opt_term(r, t.as_ref())),
            TypeDefKind::Stream(t) => format!("(stream {})", ann_opt_term(r, t.as_ref())),
            TypeDefKind::Resource => "resource".into(),
            TypeDefKind::Unknown => "unknown".into(),
        },
    }
}

fn res_name(r: &Resolve, id: TypeId) -> String {
    // follow `use` aliases to the defining resource
    let mut id = id;
    loop {
        match &r.types[id].kind {
            TypeDefKind::Type(Type::Id(t)) => id = *t,
            _ => break,
        }
    }
    let t = &r.types[id];
    let owner = match t.owner {
        TypeOwner::Interface(i) => r.interfaces[i].name.clone().unwrap_or_default(),
        TypeOwner::World(_) => "$world".to_string(),
        TypeOwner::None => "?".to_string(),
    };
    format!("{owner}.{}", t.name.clone().unwrap_or_default())
}

fn ann_opt_term(r: &Resolve, t: Option<&Type>) -> String {
    match t {
        Some(t) => ann_term(r, t),
        None => "_".into(),
    }
}

fn opt_term(r: &Resolve, t: Option<&Type>) -> String {
    match t {
        Some(t) => ty_term(r, t),
        None => "_".into(),
    }
}

fn func_term(r: &Resolve, f: &Function) -> String {
    let kind = match &f.kind {
        FunctionKind::Method(_) | FunctionKind::AsyncMethod(_) => "method",
        _ => "free",
    };
    let mut s = format!("(fn {kind} (");
    for (i, p) in f.params.iter().enumerate() {
        if i > 0 {
            s.push(' ');
        }
        s.push_str(&ty_term(r, &p.ty));
    }
    write!(s, ") {})", opt_term(r, f.result.as_ref())).unwrap();
    s
}

fn wt(t: &WasmType) -> &'static str {
    match t {
        WasmType::I32 => "i32",
        WasmType::I64 => "i64",
        WasmType::F32 => "f32",
        WasmType::F64 => "f64",
        WasmType::Pointer => "ptr",
        WasmType::PointerOrI64 => "p64",
        WasmType::Length => "len",
    }
}
fn wts(ts: &[WasmType]) -> String {
    if ts.is_empty() {
        return "-".into();
    }
    ts.iter().map(wt).collect::<Vec<_>>().join(",")
}

fn hex_decode(s: &str) -> Result<String> {
    let b: Result<Vec<u8>, _> = (0..s.len() / 2).map(|i| u8::from_str_radix(&s[2 * i..2 * i + 2], 16)).collect();
    Ok(String::from_utf8(b?)?)
}

fn json_str(s: &str) -> String {
    let mut o = String::from("\"");
    for c in s.chars() {
        match c {
            '"' => o.push_str("\\\""),
            '\\' => o.push_str("\\\\"),
            '\n' => o.push_str("\\n"),
            c if (c as u32) < 0x20 => write!(o, "\\u{:04x}", c as u32).unwrap(),
            c => o.push(c),
        }
    }
    o.push('"');
    o
}

// ------------------------------------------------------------------ configuration

#[derive(Clone, Debug)]
struct Config {
    own: String,
    std: bool,
    merge: bool,
    map: String,
    raw: bool,
    /// C08: `--async` directives (`+`-separated in the config string), in order
    async_: Vec<String>,
}

fn parse_config(s: &str) -> Result<Config> {
    let mut c = Config { own: "owning".into(), std: false, merge: false, map: "btree".into(), raw: false, async_: Vec::new() };
    for kv in s.split(',') {
        let (k, v) = kv.split_once('=').ok_or_else(|| anyhow!("bad config {kv}"))?;
        match k {
            "own" => c.own = v.into(),
            "std" => c.std = v == "1",
            "merge" => c.merge = v == "1",
            "map" => c.map = v.into(),
            "raw" => c.raw = v == "1",
            "async" => c.async_ = v.split('+').filter(|d| !d.is_empty()).map(|d| d.to_string()).collect(),
            _ => bail!("bad config key {k}"),
        }
    }
    Ok(c)
}

fn opts_of(c: &Config, prefix: &str) -> Result<wit_bindgen_rust::Opts> {
    let mut o = wit_bindgen_rust::Opts::default();
    o.generate_all = true;
    o.export_prefix = Some(prefix.to_string());
    o.ownership = match c.own.as_str() {
        "owning" => wit_bindgen_rust::Ownership::Owning,
        "borrowing" => wit_bindgen_rust::Ownership::Borrowing { duplicate_if_necessary: false },
        "dup" => wit_bindgen_rust::Ownership::Borrowing { duplicate_if_necessary: true },
        o => bail!("bad ownership {o}"),
    };
    o.std_feature = c.std;
    o.merge_structurally_equal_types = Some(Some(c.merge));
    if c.map == "hash" {
        o.map_type = Some("std::collections::HashMap".to_string());
    }
    o.raw_strings = c.raw;
    for d in &c.async_ {
        o.async_.push(d);
    }
    Ok(o)
}

// ------------------------------------------------------------------ syntax-tree survey of the bindings

#[derive(Debug)]
enum Named {
    Record { fields: Vec<String> },
    Variant { cases: Vec<(String, bool)> },
    Enum { cases: Vec<String> },
    Flags { n: usize },
    /// own-handle wrapper (`handle: _rt::Resource<Self>`); exported = has `fn new<T: Guest…>`
    ResOwn,
    ResBorrow,
}

struct NamedTy {
    path: Vec<String>,
    name: String,
    lifetimes: Vec<String>,
    kind: Named,
}

struct TraitInfo {
    path: Vec<String>,
    name: String,
    supers_resource: bool,
    assoc_types: Vec<(String, String)>, // (name, bound trait ident)
    methods: Vec<syn::TraitItemFn>,     // required methods only
}

struct FnInfo {
    path: Vec<String>,
    /// `Some(ty)` for `impl Ty { pub fn … }`
    self_ty: Option<String>,
    sig: syn::Signature,
}

#[derive(Default)]
struct Survey {
    named: Vec<NamedTy>,
    traits: Vec<TraitInfo>,
    fns: Vec<FnInfo>,
    exported_res: BTreeSet<(Vec<String>, String)>,
}

fn is_pub(v: &syn::Visibility) -> bool {
    matches!(v, syn::Visibility::Public(_))
}

fn has_repr(attrs: &[syn::Attribute]) -> bool {
    attrs.iter().any(|a| a.path().is_ident("repr"))
}

fn survey_items(items: &[syn::Item], path: &mut Vec<String>, s: &mut Survey) {
    for it in items {
        match it {
            syn::Item::Mod(m) => {
                let name = m.ident.to_string();
                if name == "_rt" || name.starts_with("vtable") || name == "wit_stream" || name == "wit_future" {
                    continue;
                }
                if let Some((_, content)) = &m.content {
                    path.push(name);
                    survey_items(content, path, s);
                    path.pop();
                }
            }
            syn::Item::Struct(st) if is_pub(&st.vis) => {
                let lifetimes: Vec<String> = st.generics.lifetimes().map(|l| l.lifetime.to_string()).collect();
                let name = st.ident.to_string();
                if let syn::Fields::Named(f) = &st.fields {
                    let fields: Vec<String> = f.named.iter().map(|f| f.ident.as_ref().unwrap().to_string()).collect();
                    let kind = if fields == ["handle"] && has_repr(&st.attrs) {
                        Named::ResOwn
                    } else if fields == ["rep", "_marker"] {
                        Named::ResBorrow
                    } else {
                        Named::Record { fields }
                    };
                    s.named.push(NamedTy { path: path.clone(), name, lifetimes, kind });
                }
            }
            syn::Item::Enum(e) if is_pub(&e.vis) => {
                let lifetimes: Vec<String> = e.generics.lifetimes().map(|l| l.lifetime.to_string()).collect();
                let name = e.ident.to_string();
                let kind = if has_repr(&e.attrs) {
                    Named::Enum { cases: e.variants.iter().map(|v| v.ident.to_string()).collect() }
                } else {
                    Named::Variant {
                        cases: e.variants.iter().map(|v| (v.ident.to_string(), !matches!(v.fields, syn::Fields::Unit))).collect(),
                    }
                };
                s.named.push(NamedTy { path: path.clone(), name, lifetimes, kind });
            }
            syn::Item::Macro(m) => {
                let p = m.mac.path.to_token_stream().to_string().replace(' ', "");
                if p.ends_with("bitflags::bitflags") || p.ends_with("bitflags") {
                    // `#[derive(..)] pub struct Name: uN { const A = 1 << 0; … }`
                    let toks: Vec<proc_macro2::TokenTree> = m.mac.tokens.clone().into_iter().collect();
                    let mut name = None;
                    let mut n = 0;
                    for (i, t) in toks.iter().enumerate() {
                        if let proc_macro2::TokenTree::Ident(id) = t {
                            if id == "struct" {
                                if let Some(proc_macro2::TokenTree::Ident(nm)) = toks.get(i + 1) {
                                    name = Some(nm.to_string());
                                }
                            }
                        }
                        if let proc_macro2::TokenTree::Group(g) = t {
                            if g.delimiter() == proc_macro2::Delimiter::Brace {
                                n = g.stream().into_iter().filter(|t| matches!(t, proc_macro2::TokenTree::Ident(i) if i == "const")).count();
                            }
                        }
                    }
                    if let Some(name) = name {
                        s.named.push(NamedTy { path: path.clone(), name, lifetimes: vec![], kind: Named::Flags { n } });
                    }
                }
            }
            syn::Item::Trait(t) if is_pub(&t.vis) => {
                let mut methods = Vec::new();
                let mut assoc = Vec::new();
                for ti in &t.items {
                    match ti {
                        syn::TraitItem::Fn(f) if f.default.is_none() => methods.push(f.clone()),
                        syn::TraitItem::Type(ty) => {
                            let bound = ty
                                .bounds
                                .iter()
                                .filter_map(|b| match b {
                                    syn::TypeParamBound::Trait(tb) => tb.path.segments.last().map(|s| s.ident.to_string()),
                                    _ => None,
                                })
                                .next()
                                .unwrap_or_default();
                            assoc.push((ty.ident.to_string(), bound));
                        }
                        _ => {}
                    }
                }
                let supers_resource = t.supertraits.iter().any(|b| b.to_token_stream().to_string().replace(' ', "").ends_with("::Resource"));
                s.traits.push(TraitInfo { path: path.clone(), name: t.ident.to_string(), supers_resource, assoc_types: assoc, methods });
            }
            syn::Item::Fn(f) if is_pub(&f.vis) => {
                s.fns.push(FnInfo { path: path.clone(), self_ty: None, sig: f.sig.clone() });
            }
            syn::Item::Impl(im) if im.trait_.is_none() => {
                let ty = im.self_ty.to_token_stream().to_string().replace(' ', "");
                for ii in &im.items {
                    if let syn::ImplItem::Fn(f) = ii {
                        if is_pub(&f.vis) {
                            if f.sig.ident == "new" && f.sig.generics.type_params().next().is_some() {
                                s.exported_res.insert((path.clone(), ty.clone()));
                            }
                            s.fns.push(FnInfo { path: path.clone(), self_ty: Some(ty.clone()), sig: f.sig.clone() });
                        }
                    }
                }
            }
            _ => {}
        }
    }
}

// ------------------------------------------------------------------ glue emission

fn rust_path(path: &[String], name: &str) -> String {
    let mut s = String::from("self");
    for p in path {
        s.push_str("::");
        s.push_str(p);
    }
    if !name.is_empty() {
        s.push_str("::");
        s.push_str(name);
    }
    s
}

fn generics(lts: &[String]) -> (String, String) {
    if lts.is_empty() {
        (String::new(), String::new())
    } else {
        (format!("<{}>", lts.join(", ")), format!("<{}>", lts.join(", ")))
    }
}

fn emit_named(out: &mut String, s: &Survey) {
    for t in &s.named {
        let p = rust_path(&t.path, &t.name);
        let (ig, tg) = generics(&t.lifetimes);
        match &t.kind {
            Named::Record { fields } => {
                writeln!(out, "impl{ig} ::bn_rt::Show for {p}{tg} {{ fn show(&self, out: &mut String) {{ out.push_str(\"(r\");").unwrap();
                for f in fields {
                    writeln!(out, "  out.push(' '); ::bn_rt::Show::show(&self.{f}, out);").unwrap();
                }
                writeln!(out, "  out.push(')'); }} }}").unwrap();
                writeln!(out, "impl{ig} ::bn_rt::Consume for {p}{tg} {{ fn consume(self) {{").unwrap();
                for f in fields {
                    writeln!(out, "  ::bn_rt::Consume::consume(self.{f});").unwrap();
                }
                writeln!(out, "}} }}").unwrap();
                writeln!(out, "impl{ig} ::bn_rt::Build for {p}{tg} {{ fn build(t: &::bn_rt::Term) -> Self {{ let items = t.items(); {p} {{").unwrap();
                for (i, f) in fields.iter().enumerate() {
                    writeln!(out, "  {f}: ::bn_rt::Build::build(&items[{i}]),").unwrap();
                }
                writeln!(out, "}} }} }}").unwrap();
            }
            Named::Variant { cases } => {
                writeln!(out, "impl{ig} ::bn_rt::Show for {p}{tg} {{ fn show(&self, out: &mut String) {{ match self {{").unwrap();
                for (i, (c, payload)) in cases.iter().enumerate() {
                    if *payload {
                        writeln!(out, "  {p}::{c}(e) => {{ out.push_str(\"(var {i}\"); ::bn_rt::Show::show_payload(e, out); out.push(')'); }}").unwrap();
                    } else {
                        writeln!(out, "  {p}::{c} => out.push_str(\"(var {i})\"),").unwrap();
                    }
                }
                writeln!(out, "}} }} }}").unwrap();
                writeln!(out, "impl{ig} ::bn_rt::Consume for {p}{tg} {{ fn consume(self) {{ match self {{").unwrap();
                for (c, payload) in cases.iter() {
                    if *payload {
                        writeln!(out, "  {p}::{c}(e) => ::bn_rt::Consume::consume(e),").unwrap();
                    } else {
                        writeln!(out, "  {p}::{c} => {{}}").unwrap();
                    }
                }
                writeln!(out, "}} }} }}").unwrap();
                writeln!(out, "impl{ig} ::bn_rt::Build for {p}{tg} {{ fn build(t: &::bn_rt::Term) -> Self {{ match t {{").unwrap();
                for (i, (c, payload)) in cases.iter().enumerate() {
                    if *payload {
                        writeln!(out, "  ::bn_rt::Term::Var({i}, p) => {p}::{c}(::bn_rt::Build::build_payload(p.as_deref())),").unwrap();
                    } else {
                        writeln!(out, "  ::bn_rt::Term::Var({i}, _) => {p}::{c},").unwrap();
                    }
                }
                writeln!(out, "  o => panic!(\"bn: bad variant term {{o:?}}\"), }} }} }}").unwrap();
            }
            Named::Enum { cases } => {
                writeln!(out, "impl ::bn_rt::Show for {p} {{ fn show(&self, out: &mut String) {{ let i: u32 = match self {{").unwrap();
                for (i, c) in cases.iter().enumerate() {
                    writeln!(out, "  {p}::{c} => {i},").unwrap();
                }
                writeln!(out, "}}; out.push_str(&format!(\"(e {{i}})\")); }} }}").unwrap();
                writeln!(out, "impl ::bn_rt::Consume for {p} {{}}").unwrap();
                writeln!(out, "impl ::bn_rt::Build for {p} {{ fn build(t: &::bn_rt::Term) -> Self {{ match t {{").unwrap();
                for (i, c) in cases.iter().enumerate() {
                    writeln!(out, "  ::bn_rt::Term::E({i}) => {p}::{c},").unwrap();
                }
                writeln!(out, "  o => panic!(\"bn: bad enum term {{o:?}}\"), }} }} }}").unwrap();
            }
            Named::Flags { n } => {
                writeln!(out, "impl ::bn_rt::Consume for {p} {{}}").unwrap();
                writeln!(
                    out,
                    "impl ::bn_rt::Show for {p} {{ fn show(&self, out: &mut String) {{ let b = self.bits() as u128; out.push_str(\"(fl \"); for i in 0..{n} {{ out.push(if (b >> i) & 1 == 1 {{ '1' }} else {{ '0' }}); }} out.push(')'); }} }}"
                )
                .unwrap();
                writeln!(
                    out,
                    "impl ::bn_rt::Build for {p} {{ fn build(t: &::bn_rt::Term) -> Self {{ match t {{ ::bn_rt::Term::Fl(bs) => {{ let mut b: u128 = 0; for (i, x) in bs.iter().enumerate() {{ if *x {{ b |= 1 << i; }} }} {p}::from_bits_retain(b as _) }} o => panic!(\"bn: bad flags term {{o:?}}\"), }} }} }}"
                )
                .unwrap();
            }
            Named::ResOwn => {
                if s.exported_res.contains(&(t.path.clone(), t.name.clone())) {
                    // own handle of an EXPORTED resource: identity = id of the user's rep value
                    writeln!(
                        out,
                        "impl ::bn_rt::Show for {p} {{ fn show(&self, out: &mut String) {{ let id = self.get::<self::BnRes>().id; out.push_str(&format!(\"(h {{id}})\")); }} }}"
                    )
                    .unwrap();
                    // user code creating a resource: plainly, or create / into_inner / wrap again (policy)
                    writeln!(
                        out,
                        "impl ::bn_rt::Build for {p} {{ fn build(t: &::bn_rt::Term) -> Self {{ match t {{ ::bn_rt::Term::H(id) => {{ let r = {p}::new(self::BnRes::make(*id)); if ::bn_rt::next_policy(4) == 0 {{ ::bn_rt::emit(&format!(\"take:{{id}}\")); let v = r.into_inner::<self::BnRes>(); {p}::new(v) }} else {{ r }} }}, o => panic!(\"bn: bad handle term {{o:?}}\"), }} }} }}"
                    )
                    .unwrap();
                    // user code receiving an own handle of its own resource: drop it / look at it and drop it /
                    // into_inner and drop the payload / into_inner and keep the payload for later (policy)
                    writeln!(
                        out,
                        "impl ::bn_rt::Consume for {p} {{ fn consume(self) {{ match ::bn_rt::next_policy(4) {{ 0 => drop(self), 1 => {{ let id = self.get::<self::BnRes>().id; let _ = id; drop(self) }}, 2 => {{ let id = self.get::<self::BnRes>().id; ::bn_rt::emit(&format!(\"take:{{id}}\")); let v = self.into_inner::<self::BnRes>(); drop(v) }}, _ => {{ let id = self.get::<self::BnRes>().id; ::bn_rt::emit(&format!(\"take:{{id}}\")); let v = self.into_inner::<self::BnRes>(); let k = ::bn_rt::stash(Box::new(v)); ::bn_rt::emit(&format!(\"kept:{{id}}:{{k}}\")); }} }} }} }}"
                    )
                    .unwrap();
                } else {
                    writeln!(
                        out,
                        "impl ::bn_rt::Show for {p} {{ fn show(&self, out: &mut String) {{ out.push_str(&format!(\"(h {{}})\", self.handle())); }} }}"
                    )
                    .unwrap();
                    writeln!(out, "impl ::bn_rt::Consume for {p} {{ fn consume(self) {{ drop(self) }} }}").unwrap();
                    writeln!(
                        out,
                        "impl ::bn_rt::Build for {p} {{ fn build(t: &::bn_rt::Term) -> Self {{ match t {{ ::bn_rt::Term::H(h) => unsafe {{ {p}::from_handle(*h) }}, o => panic!(\"bn: bad handle term {{o:?}}\"), }} }} }}"
                    )
                    .unwrap();
                }
            }
            Named::ResBorrow => {
                writeln!(
                    out,
                    "impl<'a> ::bn_rt::Show for {p}<'a> {{ fn show(&self, out: &mut String) {{ let id = self.get::<self::BnRes>().id; out.push_str(&format!(\"(h {{id}})\")); }} }}"
                )
                .unwrap();
                writeln!(out, "impl<'a> ::bn_rt::Consume for {p}<'a> {{}}").unwrap();
                // never built (borrows only travel host -> guest); needed because records containing one get a `Build` impl
                writeln!(out, "impl<'a> ::bn_rt::Build for {p}<'a> {{ fn build(_t: &::bn_rt::Term) -> Self {{ unreachable!(\"bn: a borrow of an exported resource is never built by the harness\") }} }}").unwrap();
            }
        }
    }
}

fn sig_has_rt(sig: &str) -> bool {
    sig.contains("_rt")
}

struct ExportFn {
    key: String,
    post: Option<String>,
    trait_path: Vec<String>,
    trait_name: String,
    method: String,
    sig: wit_bindgen_core::abi::WasmSignature,
    manifest: String,
    /// C08: `Some(callback symbol)` when the export is async-lifted (`[async-lift]…` + `[callback][async-lift]…`)
    async_cb: Option<String>,
}

fn c_ty(t: &WasmType) -> &'static str {
    match t {
        WasmType::I32 => "i32",
        WasmType::I64 => "i64",
        WasmType::F32 => "f32",
        WasmType::F64 => "f64",
        WasmType::Pointer => "*mut u8",
        WasmType::PointerOrI64 => "u64",
        WasmType::Length => "usize",
    }
}
fn from_bits(t: &WasmType, e: &str) -> String {
    match t {
        WasmType::I32 => format!("{e} as i32"),
        WasmType::I64 => format!("{e} as i64"),
        WasmType::F32 => format!("f32::from_bits({e} as u32)"),
        WasmType::F64 => format!("f64::from_bits({e})"),
        WasmType::Pointer => format!("{e} as usize as *mut u8"),
        WasmType::PointerOrI64 => e.to_string(),
        WasmType::Length => format!("{e} as usize"),
    }
}
fn to_bits(t: &WasmType, e: &str) -> String {
    match t {
        WasmType::I32 => format!("{e} as u32 as u64"),
        WasmType::I64 => format!("{e} as u64"),
        WasmType::F32 => format!("{e}.to_bits() as u64"),
        WasmType::F64 => format!("{e}.to_bits()"),
        WasmType::Pointer | WasmType::Length => format!("{e} as usize as u64"),
        WasmType::PointerOrI64 => e.to_string(),
    }
}

fn rust_ident(name: &str) -> String {
    // names produced by tools/witgen.py never collide with Rust keywords
    name.to_snake_case()
}

/// the text of a stub method: signature copied from the generated trait
fn stub_method(m: &syn::TraitItemFn, key: &str, adrivers: &str) -> String {
    let sig = m.sig.to_token_stream().to_string();
    let mut shows = String::new();
    let mut drops = String::new();
    for a in &m.sig.inputs {
        match a {
            syn::FnArg::Receiver(_) => {
                shows.push_str("s.push(' '); ::bn_rt::Show::show(self, &mut s); ");
            }
            syn::FnArg::Typed(pt) => {
                let n = pt.pat.to_token_stream().to_string();
                write!(shows, "s.push(' '); ::bn_rt::Show::show(&{n}, &mut s); ").unwrap();
                write!(drops, "::bn_rt::Consume::consume({n}); ").unwrap();
            }
        }
    }
    // C08: an `async fn` stub runs its scripted plan between dropping the arguments and building the result:
    // finish | yield_async().await | await an async import through its async driver ("both" scenario)
    let plan = if m.sig.asyncness.is_some() {
        format!(
            "  loop {{ match ::bn_async::plan() {{ 0 => break, 1 => ::wit_bindgen::yield_async().await, 2 => {{ let bn_c = ::bn_rt::stub_ret(\"$bn#call\"); let (bn_i, bn_a) = ::bn_rt::harness(|| {{ let it = bn_c.items(); (match &it[0] {{ ::bn_rt::Term::I(n) => *n as usize, o => panic!(\"bn: bad call term {{o:?}}\") }}, it[1].clone()) }}); ::bn_rt::harness(move || drop(bn_c)); let bn_s = ({adrivers}[bn_i].drive)(bn_a).await; ::bn_async::sub_done(bn_s); }} o => panic!(\"bn: bad plan {{o}}\") }} }}\n"
        )
    } else {
        String::new()
    };
    format!(
        "#[allow(unused_variables, dropping_copy_types, dropping_references)] {sig} {{\n  let bn_args = ::bn_rt::harness(|| {{ let mut s = String::from(\"(r\"); {shows}s.push(')'); s }});\n  ::bn_rt::stub_enter({key:?}, bn_args);\n  {drops}\n{plan}  let bn_t = ::bn_rt::stub_ret({key:?});\n  let bn_r = ::bn_rt::Build::build(&bn_t);\n  ::bn_rt::harness(move || drop(bn_t));\n  bn_r\n}}\n"
    )
}

fn nest_open(out: &mut String, tag: &str, depth: usize) {
    for d in 0..depth {
        writeln!(out, "#[allow(warnings)] pub mod bn_{tag}_{d} {{").unwrap();
    }
}
fn nest_close(out: &mut String, depth: usize) {
    for _ in 0..depth {
        out.push_str("}\n");
    }
}

struct ItemOut {
    glue: String,
    manifest: Vec<String>,
    table: String,
    /// C08: the item binds something asynchronously (the batch then links bn-async and the `async` runtime feature)
    any_async: bool,
}

fn world_key_name(r: &Resolve, k: &WorldKey) -> String {
    r.name_world_key(k)
}

/// module path (below the bindings root) of an interface, as the Rust backend lays it out for
/// unversioned packages: `[exports::]<namespace>::<package>::<interface>`
fn iface_mod_path(r: &Resolve, id: InterfaceId, export: bool) -> Vec<String> {
    let i = &r.interfaces[id];
    let pkg = &r.packages[i.package.unwrap()];
    let mut p = Vec::new();
    if export {
        p.push("exports".to_string());
    }
    p.push(pkg.name.namespace.to_snake_case());
    p.push(pkg.name.name.to_snake_case());
    p.push(i.name.as_ref().unwrap().to_snake_case());
    p
}

fn func_kind(f: &Function) -> (&'static str, Option<TypeId>) {
    match &f.kind {
        FunctionKind::Freestanding | FunctionKind::AsyncFreestanding => ("free", None),
        FunctionKind::Method(id) | FunctionKind::AsyncMethod(id) => ("method", Some(*id)),
        FunctionKind::Static(id) | FunctionKind::AsyncStatic(id) => ("static", Some(*id)),
        FunctionKind::Constructor(id) => ("constructor", Some(*id)),
    }
}

fn manifest_line(
    idx: usize,
    dir: &str,
    key: &str,
    iface: &str,
    r: &Resolve,
    f: &Function,
    sig: &wit_bindgen_core::abi::WasmSignature,
    post: Option<&str>,
) -> String {
    let (kind, res) = func_kind(f);
    let params: Vec<String> = f.params.iter().map(|p| json_str(&ty_term(r, &p.ty))).collect();
    format!(
        "{{\"item\":{idx},\"dir\":{},\"key\":{},\"iface\":{},\"name\":{},\"kind\":{},\"resource\":{},\"func\":{},\"params\":[{}],\"result\":{},\"params_ann\":[{}],\"result_ann\":{},\"sig_params\":{},\"sig_results\":{},\"indirect_params\":{},\"retptr\":{},\"post\":{}}}",
        json_str(dir),
        json_str(key),
        json_str(iface),
        json_str(&f.name),
        json_str(kind),
        res.map(|id| json_str(r.types[id].name.as_deref().unwrap_or("?"))).unwrap_or("null".into()),
        json_str(&func_term(r, f)),
        params.join(","),
        f.result.as_ref().map(|t| json_str(&ty_term(r, t))).unwrap_or("null".into()),
        f.params.iter().map(|p| json_str(&ann_term(r, &p.ty))).collect::<Vec<_>>().join(","),
        f.result.as_ref().map(|t| json_str(&ann_term(r, t))).unwrap_or("null".into()),
        json_str(&wts(&sig.params)),
        json_str(&wts(&sig.results)),
        sig.indirect_params,
        sig.retptr,
        post.map(json_str).unwrap_or("null".into()),
    )
}

fn emit_item(idx: usize, cfg: &Config, wit: &str) -> Result<(String, ItemOut)> {
    let prefix = format!("w{idx}_");
    let mut resolve = Resolve::default();
    let pkg = resolve.push_str(format!("w{idx}.wit"), wit).context("parsing WIT")?;
    let world = resolve.select_world(&[pkg], None)?;
    let mut files = Files::default();
    let mut g = opts_of(cfg, &prefix)?.build();
    g.generate(&mut resolve, world, &mut files).context("generator returned an error")?;
    let (_, bytes) = files.iter().next().ok_or_else(|| anyhow!("no file generated"))?;
    let text = String::from_utf8(bytes.to_vec())?;
    let ast = syn::parse_file(&text).map_err(|e| anyhow!("generated bindings do not parse as Rust: {e}"))?;
    let mut survey = Survey::default();
    survey_items(&ast.items, &mut Vec::new(), &mut survey);

    let mut glue = String::new();
    let mut manifest = Vec::new();
    glue.push_str("\n// ===================== bind-native glue (emitted by /verif/harness/bind-native) =====================\n");
    glue.push_str("pub struct BnStub;\n");
    glue.push_str(
        "/// the user's resource type: a payload with drop glue (heap string) and a drop counter (`udrop:<id>` events)\npub struct BnRes { pub id: u32, pub name: String }\nimpl BnRes { pub fn make(id: u32) -> Self { ::bn_rt::emit(&format!(\"mk:{id}\")); BnRes { id, name: format!(\"payload-{id}\") } } }\nimpl Drop for BnRes { fn drop(&mut self) { assert_eq!(self.name, format!(\"payload-{}\", self.id), \"bn: payload of resource {} is corrupt (dropped twice / read after free)\", self.id); ::bn_rt::emit(&format!(\"udrop:{}\", self.id)); } }\nimpl ::bn_rt::Show for BnRes { fn show(&self, out: &mut String) { out.push_str(&format!(\"(h {})\", self.id)); } }\nimpl ::bn_rt::Build for BnRes { fn build(t: &::bn_rt::Term) -> Self { match t { ::bn_rt::Term::H(id) => BnRes::make(*id), o => panic!(\"bn: bad handle term {o:?}\") } } }\nimpl ::bn_rt::Consume for BnRes { fn consume(self) { drop(self) } }\n",
    );
    emit_named(&mut glue, &survey);

    // ---------------------------------------------------------------- exports
    let w = &resolve.worlds[world];
    let mut exports: Vec<ExportFn> = Vec::new();
    let mut dtor_exports: Vec<(String, String)> = Vec::new(); // (key, symbol)
    for (key, item) in &w.exports {
        let (iface_name, funcs, modpath): (Option<String>, Vec<&Function>, Vec<String>) = match item {
            WorldItem::Function(f) => (None, vec![f], vec![]),
            WorldItem::Interface { id, .. } => (
                Some(world_key_name(&resolve, key)),
                resolve.interfaces[*id].functions.values().collect(),
                iface_mod_path(&resolve, *id, true),
            ),
            WorldItem::Type { .. } => continue,
        };
        if let WorldItem::Interface { id, .. } = item {
            for (_, tid) in &resolve.interfaces[*id].types {
                if matches!(resolve.types[*tid].kind, TypeDefKind::Resource) {
                    let rn = resolve.types[*tid].name.clone().unwrap();
                    let sym = format!("{prefix}{}#[dtor]{rn}", iface_name.as_ref().unwrap());
                    dtor_exports.push((sym.clone(), sym));
                }
            }
        }
        for f in funcs {
            let core = f.legacy_core_export_name(iface_name.as_deref());
            // C08: an async-lifted export is recognised by the symbol the generator emitted for it
            let async_sym = format!("{prefix}[async-lift]{core}");
            let is_async = text.contains(&format!("export_name = \"{async_sym}\""));
            let sig = resolve.wasm_signature(if is_async { AbiVariant::GuestExportAsync } else { AbiVariant::GuestExport }, f);
            let sym = if is_async { async_sym } else { format!("{prefix}{core}") };
            if !text.contains(&format!("export_name = \"{sym}\"")) {
                bail!("export symbol {sym} not found in generated bindings");
            }
            let async_cb = if is_async {
                let cb = format!("{prefix}[callback][async-lift]{core}");
                if !text.contains(&format!("export_name = \"{cb}\"")) {
                    bail!("callback symbol {cb} not found in generated bindings");
                }
                Some(cb)
            } else {
                None
            };
            let post = format!("{prefix}cabi_post_{core}");
            let post = if text.contains(&format!("export_name = \"{post}\"")) { Some(post) } else { None };
            let (kind, res) = func_kind(f);
            let (trait_name, method) = match res {
                None => ("Guest".to_string(), rust_ident(&f.name)),
                Some(id) => (
                    format!("Guest{}", resolve.types[id].name.as_ref().unwrap().to_upper_camel_case()),
                    if kind == "constructor" { "new".to_string() } else { rust_ident(f.item_name()) },
                ),
            };
            let mut m = manifest_line(idx, "export", &sym, iface_name.as_deref().unwrap_or("$root"), &resolve, f, &sig, post.as_deref());
            if let Some(cb) = &async_cb {
                m.pop();
                write!(m, ",\"async\":true,\"callback\":{}}}", json_str(cb)).unwrap();
            }
            exports.push(ExportFn { key: sym, post, trait_path: modpath.clone(), trait_name, method, sig, manifest: m, async_cb });
        }
    }
    // stub impls, one nest per trait
    let mut by_trait: BTreeMap<(Vec<String>, String), Vec<&ExportFn>> = BTreeMap::new();
    for e in &exports {
        by_trait.entry((e.trait_path.clone(), e.trait_name.clone())).or_default().push(e);
    }
    let mut nest_id = 0;
    for t in &survey.traits {
        let is_guest = t.name == "Guest";
        let is_res = t.name.starts_with("Guest") && !is_guest && t.supers_resource;
        if !is_guest && !is_res {
            continue;
        }
        let fns = by_trait.get(&(t.path.clone(), t.name.clone())).cloned().unwrap_or_default();
        let depth = t.path.len();
        let tag = format!("s{nest_id}");
        nest_id += 1;
        nest_open(&mut glue, &tag, depth);
        let root = if depth == 0 { "self".to_string() } else { vec!["super"; depth].join("::") };
        let orig = {
            let mut s = root.clone();
            for p in &t.path {
                s.push_str("::");
                s.push_str(p);
            }
            s
        };
        let mut body = String::new();
        for (an, _bound) in &t.assoc_types {
            writeln!(body, "  type {an} = {root}::BnRes;").unwrap();
        }
        for m in &t.methods {
            let name = m.sig.ident.to_string();
            let Some(e) = fns.iter().find(|e| e.method == name) else {
                bail!("trait method {}::{name} has no matching exported WIT function", t.name);
            };
            body.push_str(&stub_method(m, &e.key, &format!("{root}::BN_ADRIVERS")));
        }
        if depth > 0 {
            writeln!(glue, "#[allow(unused_imports)] use {orig}::*;").unwrap();
            if sig_has_rt(&body) {
                writeln!(glue, "#[allow(unused_imports)] use {root}::_rt;").unwrap();
            }
        }
        let target = if is_guest { format!("{root}::BnStub") } else { format!("{root}::BnRes") };
        let tr = if depth > 0 { t.name.clone() } else { format!("self::{}", t.name) };
        writeln!(glue, "impl {tr} for {target} {{\n{body}}}").unwrap();
        nest_close(&mut glue, depth);
    }
    if text.contains(" as export;") {
        glue.push_str("export!(BnStub);\n");
    }
    // trampolines
    let mut any_async = false;
    let mut table_adrivers = String::new();
    let mut table_exports = String::new();
    for (k, e) in exports.iter().enumerate() {
        let ps: Vec<String> = e.sig.params.iter().enumerate().map(|(i, t)| format!("a{i}: {}", c_ty(t))).collect();
        let ret = e.sig.results.first();
        let args: Vec<String> = e.sig.params.iter().enumerate().map(|(i, t)| from_bits(t, &format!("a[{i}]"))).collect();
        let call = format!("f({})", args.join(", "));
        writeln!(
            glue,
            "unsafe fn bn_call_{k}(a: &[u64]) -> u64 {{ unsafe extern \"C\" {{ #[link_name = {:?}] fn f({}){}; }} assert_eq!(a.len(), {}); {} }}",
            e.key,
            ps.join(", "),
            ret.map(|t| format!(" -> {}", c_ty(t))).unwrap_or_default(),
            e.sig.params.len(),
            match ret {
                Some(t) => format!("let r = unsafe {{ {call} }}; {}", to_bits(t, "r")),
                None => format!("unsafe {{ {call} }}; 0"),
            }
        )
        .unwrap();
        let post = match &e.post {
            Some(p) => {
                let t = ret.expect("post-return without result");
                writeln!(
                    glue,
                    "unsafe fn bn_post_{k}(a: u64) {{ unsafe extern \"C\" {{ #[link_name = {p:?}] fn f(a0: {}); }} unsafe {{ f({}) }} }}",
                    c_ty(t),
                    from_bits(t, "a")
                )
                .unwrap();
                format!("Some(bn_post_{k})")
            }
            None => "None".to_string(),
        };
        writeln!(table_exports, "  ::bn_rt::Export {{ key: {:?}, call: bn_call_{k}, post: {post} }},", e.key).unwrap();
        if let Some(cb) = &e.async_cb {
            // C08: the `[callback]` export of an async-lifted function, callable through `CALL|<callback key>|e0,e1,e2`
            any_async = true;
            writeln!(
                glue,
                "unsafe fn bn_cb_{k}(a: &[u64]) -> u64 {{ unsafe extern \"C\" {{ #[link_name = {cb:?}] fn f(a0: u32, a1: u32, a2: u32) -> u32; }} assert_eq!(a.len(), 3); (unsafe {{ f(a[0] as u32, a[1] as u32, a[2] as u32) }}) as u64 }}"
            )
            .unwrap();
            writeln!(table_exports, "  ::bn_rt::Export {{ key: {cb:?}, call: bn_cb_{k}, post: None }},").unwrap();
        }
        manifest.push(e.manifest.clone());
    }
    for (k, (key, sym)) in dtor_exports.iter().enumerate() {
        if !text.contains(&format!("export_name = \"{sym}\"")) {
            continue;
        }
        writeln!(
            glue,
            "unsafe fn bn_dtor_{k}(a: &[u64]) -> u64 {{ unsafe extern \"C\" {{ #[link_name = {sym:?}] fn f(a0: *mut u8); }} unsafe {{ f(a[0] as usize as *mut u8) }}; 0 }}"
        )
        .unwrap();
        writeln!(table_exports, "  ::bn_rt::Export {{ key: {key:?}, call: bn_dtor_{k}, post: None }},").unwrap();
        manifest.push(format!("{{\"item\":{idx},\"dir\":\"dtor\",\"key\":{}}}", json_str(key)));
    }

    // ---------------------------------------------------------------- import symbols (from the text)
    let marker = "#[link_name = \"[verif-import]";
    let mut seen = BTreeSet::new();
    let mut pos = 0;
    let mut k = 0;
    while let Some(i) = text[pos..].find(marker) {
        let st = pos + i + marker.len();
        let end = st + text[st..].find("\"]").ok_or_else(|| anyhow!("unterminated link_name"))?;
        let name = &text[st..end];
        pos = end;
        let rest = &text[end + 2..];
        let fn_at = rest.find("fn ").ok_or_else(|| anyhow!("no fn after link_name"))?;
        let semi = rest.find(';').ok_or_else(|| anyhow!("no ; after link_name"))?;
        let decl = &rest[fn_at..semi];
        if !seen.insert(name.to_string()) {
            continue;
        }
        let open = decl.find('(').unwrap();
        let close = decl.rfind(')').unwrap();
        let params: Vec<String> = decl[open + 1..close]
            .split(',')
            .map(|p| p.trim())
            .filter(|p| !p.is_empty())
            .map(|p| p.split_once(':').map(|x| x.1.trim().to_string()).unwrap_or_default())
            .collect();
        let ret = decl[close + 1..].trim().strip_prefix("->").map(|r| r.trim().to_string());
        let conv_in = |t: &str, e: &str| -> Result<String> {
            Ok(match t.replace(' ', "").as_str() {
                "i32" | "u32" => format!("{e} as u32 as u64"),
                "i64" | "u64" => format!("{e} as u64"),
                "f32" => format!("{e}.to_bits() as u64"),
                "f64" => format!("{e}.to_bits()"),
                "*mutu8" | "*constu8" | "usize" => format!("{e} as usize as u64"),
                "::core::mem::MaybeUninit::<u64>" => format!("unsafe {{ {e}.assume_init() }}"),
                o => bail!("unknown core type {o} in import declaration {name}"),
            })
        };
        let mut ps = Vec::new();
        let mut bits = Vec::new();
        for (i, t) in params.iter().enumerate() {
            ps.push(format!("a{i}: {t}"));
            bits.push(conv_in(t, &format!("a{i}"))?);
        }
        let (rty, rconv) = match ret.as_deref().map(|r| r.replace(' ', "")) {
            None => (String::new(), "let _ = r;".to_string()),
            Some(r) => (
                format!(" -> {}", ret.as_ref().unwrap()),
                match r.as_str() {
                    "i32" => "r as i32".to_string(),
                    "u32" => "r as u32".to_string(),
                    "i64" => "r as i64".to_string(),
                    "u64" => "r".to_string(),
                    "f32" => "f32::from_bits(r as u32)".to_string(),
                    "f64" => "f64::from_bits(r)".to_string(),
                    "*mutu8" => "r as usize as *mut u8".to_string(),
                    "usize" => "r as usize".to_string(),
                    o => bail!("unknown core result type {o} in import declaration {name}"),
                },
            ),
        };
        writeln!(
            glue,
            "#[unsafe(export_name = {:?})] unsafe extern \"C\" fn bn_imp_{k}({}){rty} {{ let r = ::bn_rt::import_event({name:?}, &[{}]); {rconv} }}",
            format!("[verif-import]{name}"),
            ps.join(", "),
            bits.join(", ")
        )
        .unwrap();
        k += 1;
    }

    // ---------------------------------------------------------------- import drivers
    let mut table_drivers = String::new();
    let mut dk = 0;
    for (key, item) in &w.imports {
        let (iface_name, funcs, modpath): (Option<String>, Vec<&Function>, Vec<String>) = match item {
            WorldItem::Function(f) => (None, vec![f], vec![]),
            WorldItem::Interface { id, .. } => (
                Some(world_key_name(&resolve, key)),
                resolve.interfaces[*id].functions.values().collect(),
                iface_mod_path(&resolve, *id, false),
            ),
            WorldItem::Type { .. } => continue,
        };
        for f in funcs {
            let module = iface_name.clone().unwrap_or_else(|| "$root".to_string());
            // C08: an async-lowered import is recognised by the `[async-lower]` symbol the generator declared
            let alink = format!("{module}#[async-lower]{}", f.name);
            let is_async = seen.contains(&alink);
            let sig = resolve.wasm_signature(if is_async { AbiVariant::GuestImportAsync } else { AbiVariant::GuestImport }, f);
            let link = if is_async { alink } else { format!("{module}#{}", f.name) };
            if !seen.contains(&link) {
                bail!("import {link} has no [verif-import] declaration in the generated bindings (hook H3 inactive?)");
            }
            let (kind, res) = func_kind(f);
            let base = rust_path(&modpath, "");
            let callee = match res {
                None => format!("{base}::{}", rust_ident(&f.name)),
                Some(id) => format!(
                    "{base}::{}::{}",
                    resolve.types[id].name.as_ref().unwrap().to_upper_camel_case(),
                    if kind == "constructor" { "new".to_string() } else { rust_ident(f.item_name()) }
                ),
            };
            let args: Vec<String> = (0..f.params.len()).map(|i| format!("bn_a{i}")).collect();
            let lets: String = (0..f.params.len()).map(|i| format!("let bn_a{i} = ::bn_rt::Build::build(&items[{i}]); ")).collect();
            if is_async {
                // C08: (1) a blocking driver on the REAL `block_on`, dropping the call's future after the scripted
                // number of `Pending`s; (2) an async driver for use inside async export stubs
                any_async = true;
                writeln!(
                    glue,
                    "fn bn_drive_{dk}(t: &::bn_rt::Term, _keep: bool) -> String {{ let items = t.items(); assert_eq!(items.len(), {}); {lets}let fut = {callee}({}); let lim = ::bn_async::PollLimited::new(fut, ::bn_async::budget()); let r = ::wit_bindgen::block_on(lim); let s = ::bn_rt::harness(|| match &r {{ Some(v) => {{ let mut s = String::new(); ::bn_rt::Show::show(v, &mut s); s }} None => String::from(\"cancelled\") }}); drop(r); ::bn_rt::release_keep(); s }}",
                    f.params.len(),
                    args.join(", ")
                )
                .unwrap();
                writeln!(
                    glue,
                    "fn bn_adrive_{dk}(t: ::bn_rt::Term) -> ::core::pin::Pin<::std::boxed::Box<dyn ::core::future::Future<Output = String>>> {{ ::std::boxed::Box::pin(async move {{ let _bn_keep = ::bn_async::KeepGuard; let fut = {{ let items = t.items(); assert_eq!(items.len(), {}); {lets}{callee}({}) }}; ::bn_rt::harness(move || drop(t)); let r = fut.await; let s = ::bn_rt::harness(|| {{ let mut s = String::new(); ::bn_rt::Show::show(&r, &mut s); s }}); drop(r); s }}) }}",
                    f.params.len(),
                    args.join(", ")
                )
                .unwrap();
                writeln!(table_drivers, "  ::bn_rt::Driver {{ key: {link:?}, drive: bn_drive_{dk} }},").unwrap();
                writeln!(table_adrivers, "  ::bn_async::ADriver {{ key: {link:?}, drive: bn_adrive_{dk} }},").unwrap();
                let mut m = manifest_line(idx, "import", &link, &module, &resolve, f, &sig, None);
                m.pop();
                m.push_str(",\"async\":true}");
                manifest.push(m);
                dk += 1;
                continue;
            }
            writeln!(
                glue,
                "fn bn_drive_{dk}(t: &::bn_rt::Term, keep: bool) -> String {{ let items = t.items(); assert_eq!(items.len(), {}); {lets}::bn_rt::phase_mark(\"args-built\"); let r = {callee}({}); let mut s = ::bn_rt::harness(|| {{ let mut s = String::new(); ::bn_rt::Show::show(&r, &mut s); s }}); if keep {{ let k = ::bn_rt::stash(Box::new(r)); s = ::bn_rt::harness(|| format!(\"{{s}} #{{k}}\")); }} else {{ drop(r); }} ::bn_rt::release_keep(); s }}",
                f.params.len(),
                args.join(", ")
            )
            .unwrap();
            writeln!(table_drivers, "  ::bn_rt::Driver {{ key: {link:?}, drive: bn_drive_{dk} }},").unwrap();
            manifest.push(manifest_line(idx, "import", &link, &module, &resolve, f, &sig, None));
            dk += 1;
        }
    }
    let table = format!(
        "pub static BN_ITEM: ::bn_rt::Item = ::bn_rt::Item {{ name: \"w{idx}\", exports: &[\n{table_exports}], drivers: &[\n{table_drivers}] }};\n"
    );
    glue.push_str(&table);
    if any_async {
        glue.push_str(&format!("pub static BN_ADRIVERS: &[::bn_async::ADriver] = &[\n{table_adrivers}];\n"));
    }
    Ok((text, ItemOut { glue, manifest, table: String::new(), any_async }))
}

fn main() -> Result<()> {
    let args: Vec<String> = std::env::args().collect();
    if args.len() != 4 || args[1] != "emit" {
        bail!("usage: bind-native emit <batch dir> <spec file>");
    }
    // hook H3: the generator emits `[verif-import]` symbol declarations for native targets
    unsafe { std::env::set_var("WIT_BINDGEN_VERIF", "1") };
    let dir = std::path::PathBuf::from(&args[2]);
    std::fs::create_dir_all(dir.join("src"))?;
    let spec = std::fs::read_to_string(&args[3])?;
    let mut manifest = String::new();
    let mut mods = Vec::new();
    let mut batch_async = false;
    std::panic::set_hook(Box::new(|_| {}));
    for line in spec.lines().filter(|l| !l.trim().is_empty()) {
        let f: Vec<&str> = line.split(' ').collect();
        let idx: usize = f[0].parse()?;
        let cfg = parse_config(f[1])?;
        let wit = hex_decode(f[2])?;
        let r = catch_unwind(AssertUnwindSafe(|| emit_item(idx, &cfg, &wit)));
        match r {
            Ok(Ok((text, out))) => {
                batch_async |= out.any_async;
                std::fs::write(dir.join("src").join(format!("w{idx}.rs")), format!("{text}\n{}\n{}", out.glue, out.table))?;
                for m in out.manifest {
                    manifest.push_str(&m);
                    manifest.push('\n');
                }
                writeln!(manifest, "{{\"item\":{idx},\"dir\":\"item\",\"status\":\"ok\",\"config\":{}}}", json_str(f[1]))?;
                mods.push(idx);
            }
            Ok(Err(e)) => {
                writeln!(manifest, "{{\"item\":{idx},\"dir\":\"item\",\"status\":\"error\",\"config\":{},\"message\":{}}}", json_str(f[1]), json_str(&format!("{e:#}")))?;
            }
            Err(p) => {
                let msg = p.downcast_ref::<String>().cloned().or_else(|| p.downcast_ref::<&str>().map(|s| s.to_string())).unwrap_or_default();
                writeln!(manifest, "{{\"item\":{idx},\"dir\":\"item\",\"status\":\"panic\",\"config\":{},\"message\":{}}}", json_str(f[1]), json_str(&msg))?;
            }
        }
    }
    let mut main = String::from("// emitted by /verif/harness/bind-native — batch binary (line server, see bn-rt)\n#![allow(warnings)]\nextern crate alloc;\n");
    for i in &mods {
        writeln!(main, "#[allow(warnings)] mod w{i};")?;
    }
    main.push_str("static ITEMS: &[&::bn_rt::Item] = &[");
    for i in &mods {
        write!(main, "&w{i}::BN_ITEM, ")?;
    }
    main.push_str("];\nfn main() { ::bn_rt::serve(ITEMS) }\n");
    std::fs::write(dir.join("src/main.rs"), main)?;
    let verif = std::env::var("VERIF_ROOT").unwrap_or_else(|_| "/verif".to_string());
    let repo = std::env::var("VERIF_REPO").unwrap_or_else(|_| "/repo".to_string());
    // C08: batches with async bindings link the async half of the runtime (built with hook H1 on: the caller
    // sets RUSTFLAGS=--cfg bytecodealliance_wit_bindgen_verif) and bn-async (the canonical built-ins as events)
    let async_dep = if batch_async { format!("bn-async = {{ path = \"{verif}/harness/bind-native/async-rt\" }}\n") } else { String::new() };
    let async_feat = if batch_async { ", \"async\"" } else { "" };
    std::fs::write(
        dir.join("Cargo.toml"),
        format!(
            "[package]\nname = \"bn-batch\"\nversion = \"0.0.0\"\nedition = \"2024\"\n\n[workspace]\n\n[dependencies]\nbn-rt = {{ path = \"{verif}/harness/bind-native/rt\" }}\n{async_dep}wit-bindgen = {{ path = \"{repo}/crates/guest-rust\", default-features = false, features = [\"realloc\", \"std\", \"bitflags\"{async_feat}] }}\n\n[profile.dev]\nopt-level = 0\ndebug = false\nincremental = false\n"
        ),
    )?;
    std::fs::write(dir.join("manifest.jsonl"), manifest)?;
    Ok(())
}
