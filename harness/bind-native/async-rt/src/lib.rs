//! bn-async — see ../Cargo.toml and ../../README.md ("Async worlds").
//!
//! Every built-in is an event `IMPORT|$rt#<name>|<args as u64 bits>`; the peer answers `RETURN|<bits>`
//! (after any number of nested HOSTMEM / READ requests, e.g. to write the `waitable-set.wait` payload
//! or a subtask's results).  No host state lives here except the `wasip3_task_set` pointer, which is a
//! plain C global in the real runtime too (src/rt/wit_bindgen_cabi_wasip3.c).
use bn_rt::import_event;
use core::ffi::c_void;
use core::future::Future;
use core::pin::Pin;
use core::task::{Context, Poll};
use std::sync::atomic::{AtomicUsize, Ordering};

macro_rules! builtin {
    ($sym:literal, $name:ident ( $($a:ident : $t:ty),* ) $(-> $r:ty)? , |$ret:ident| $conv:expr) => {
        #[export_name = $sym]
        pub unsafe extern "C" fn $name($($a: $t),*) $(-> $r)? {
            let $ret = import_event(concat!("$rt#", $sym), &[$($a as usize as u64),*]);
            $conv
        }
    };
}

builtin!("[subtask-cancel]", subtask_cancel(h: u32) -> u32, |r| r as u32);
builtin!("[subtask-drop]", subtask_drop(h: u32), |r| { let _ = r; });
builtin!("[waitable-set-new]", waitable_set_new() -> u32, |r| r as u32);
builtin!("[waitable-set-drop]", waitable_set_drop(s: u32), |r| { let _ = r; });
builtin!("[waitable-join]", waitable_join(w: u32, s: u32), |r| { let _ = r; });
builtin!("[waitable-set-wait]", waitable_set_wait(s: u32, payload: *mut [u32; 2]) -> u32, |r| r as u32);
builtin!("[waitable-set-poll]", waitable_set_poll(s: u32, payload: *mut [u32; 2]) -> u32, |r| r as u32);
builtin!("[context-get-0]", context_get_0() -> *mut u8, |r| r as usize as *mut u8);
builtin!("[context-set-0]", context_set_0(v: *mut u8), |r| { let _ = r; });
builtin!("[backpressure-inc]", backpressure_inc(), |r| { let _ = r; });
builtin!("[backpressure-dec]", backpressure_dec(), |r| { let _ = r; });
builtin!("[task-cancel]", task_cancel(), |r| { let _ = r; });
builtin!("[error-context-new-utf8]", error_context_new(p: *const u8, len: usize) -> u32, |r| r as u32);
builtin!("[error-context-drop]", error_context_drop(h: u32), |r| { let _ = r; });
builtin!("[error-context-debug-message-utf8]", error_context_debug_message(h: u32, ret: *mut u8), |r| { let _ = r; });

#[export_name = "[thread-yield]"]
pub unsafe extern "C" fn thread_yield() -> bool {
    import_event("$rt#[thread-yield]", &[]) != 0
}

static TASK: AtomicUsize = AtomicUsize::new(0);

/// `wasip3_task_set`: one global pointer, exactly as the weak C definition of the runtime.
#[no_mangle]
pub unsafe extern "C" fn wasip3_task_set(ptr: *mut c_void) -> *mut c_void {
    TASK.swap(ptr as usize, Ordering::Relaxed) as *mut c_void
}

/// How many `Pending` results the driver of an async import tolerates before it drops the call's
/// future (0 = never: run to completion).  Asked of the peer once per driven call.
pub fn budget() -> u64 {
    import_event("$bn#budget", &[])
}

/// Next step of the body of an async export stub: 0 = finish, 1 = `yield_async().await`,
/// 2 = await an async import (the call term was scripted under the key `$bn#call`).
pub fn plan() -> u64 {
    import_event("$bn#plan", &[])
}

/// tell the peer that the stub's nested import call completed (its shown result is in the notes)
pub fn sub_done(result: String) {
    // (the record is harness data: built under the harness tag so that it is not charged to the guest)
    let line = bn_rt::harness(|| format!("sub-result:{result}"));
    bn_rt::harness(move || drop(result));
    bn_rt::note(line);
}

/// Wrapper that drops the inner future after `left` `Pending` results (cancellation by drop, the only
/// form of cancellation the Rust bindings expose).
pub struct PollLimited<F: Future> {
    fut: Option<Pin<Box<F>>>,
    left: u64,
}

impl<F: Future> PollLimited<F> {
    pub fn new(fut: F, budget: u64) -> Self {
        PollLimited { fut: Some(Box::pin(fut)), left: budget }
    }
}

impl<F: Future> Future for PollLimited<F> {
    type Output = Option<F::Output>;
    fn poll(self: Pin<&mut Self>, cx: &mut Context<'_>) -> Poll<Self::Output> {
        // SAFETY: `fut` is boxed (address-stable) and the other field is plain data
        let me = unsafe { self.get_unchecked_mut() };
        let Some(f) = me.fut.as_mut() else { return Poll::Ready(None) };
        match f.as_mut().poll(cx) {
            Poll::Ready(v) => {
                me.fut = None;
                Poll::Ready(Some(v))
            }
            Poll::Pending => {
                if me.left == 0 {
                    return Poll::Pending;
                }
                me.left -= 1;
                if me.left == 0 {
                    bn_rt::note(bn_rt::harness(|| "drop-call-future".to_string()));
                    me.fut = None; // runs the destructor of the call's future: cancel path
                    Poll::Ready(None)
                } else {
                    Poll::Pending
                }
            }
        }
    }
}

/// Releases the values the harness built for borrowed arguments (`bn_rt::release_keep`) when the async driver's
/// future completes OR is dropped with the task (declared first in the driver, hence dropped last).
pub struct KeepGuard;
impl Drop for KeepGuard {
    fn drop(&mut self) {
        bn_rt::release_keep();
    }
}

/// async driver of an imported function, callable from inside an export stub ("both" scenario)
pub struct ADriver {
    pub key: &'static str,
    pub drive: fn(bn_rt::Term) -> Pin<Box<dyn Future<Output = String>>>,
}
