//! abi-trace: drives the REAL shared ABI generator (`wit_bindgen_core::abi`) through its public
//! API with a recording `Bindgen` and prints, per case, a canonical *tree form* of the emitted
//! instruction stream (see /verif/DESIGN.md §6.1 "tree form").
//!
//! usage: abi-trace <file.wit>      prints one line per case:  KEY \t RESULT
//! KEY is exactly the request understood by the Lean driver `m_abi`.
//!
//! Tree form.  The recording Bindgen hands out fresh SSA ids as operands.  After the run the SSA
//! stream is canonicalised: *pure* block-free instructions are inlined as expressions; effectful
//! instructions (and block-carrying ones whose blocks contain statements, and zero-result ones)
//! become statements `(let NAME n args.. {blocks})`; their results are referenced by content
//! `(res k NAME args..)`.  Block binders are leaves carrying the absolute block nesting level.
use std::collections::HashMap;
use std::fmt::Write as _;
use wit_bindgen_core::abi::{self, AbiVariant, Bindgen, Bitcast, Instruction, LiftLower, WasmType};
use wit_parser::*;

// ------------------------------------------------------------------ type terms

fn ty_term(r: &Resolve, t: &Type) -> String {
    match t {
        Type::Bool => "bool".into(),
        Type::U8 => "u8".into(),
        Type::S8 => "s8".into(),
        Type::U16 => "u16".into(),
        Type::S16 => "s16".into(),
        Type::U32 => "u32".into(),
        Type::S32 => "s32".into(),
        Type::U64 => "u64".into(),
        Type::S64 => "s64".into(),
        Type::F32 => "f32".into(),
        Type::F64 => "f64".into(),
        Type::Char => "char".into(),
        Type::String => "string".into(),
        Type::ErrorContext => "errctx".into(),
        Type::Id(id) => match &r.types[*id].kind {
            TypeDefKind::Type(t) => ty_term(r, t), // aliases are transparent
            TypeDefKind::List(t) => format!("(list {})", ty_term(r, t)),
            TypeDefKind::FixedLengthList(t, n) => format!("(flist {} {n})", ty_term(r, t)),
            TypeDefKind::Map(k, v) => format!("(map {} {})", ty_term(r, k), ty_term(r, v)),
            TypeDefKind::Record(rec) => {
                let mut s = "(record".to_string();
                for f in &rec.fields {
                    write!(s, " {}", ty_term(r, &f.ty)).unwrap();
                }
                s + ")"
            }
            TypeDefKind::Tuple(t) => {
                let mut s = "(tuple".to_string();
                for f in &t.types {
                    write!(s, " {}", ty_term(r, f)).unwrap();
                }
                s + ")"
            }
            TypeDefKind::Flags(f) => format!("(flags {})", f.flags.len()),
            TypeDefKind::Enum(e) => format!("(enum {})", e.cases.len()),
            TypeDefKind::Variant(v) => {
                let mut s = "(variant".to_string();
                for c in &v.cases {
                    write!(s, " {}", opt_term(r, c.ty.as_ref())).unwrap();
                }
                s + ")"
            }
            TypeDefKind::Option(t) => format!("(option {})", ty_term(r, t)),
            TypeDefKind::Result(res) => format!(
                "(result {} {})",
                opt_term(r, res.ok.as_ref()),
                opt_term(r, res.err.as_ref())
            ),
            TypeDefKind::Handle(Handle::Own(_)) => "own".into(),
            TypeDefKind::Handle(Handle::Borrow(_)) => "borrow".into(),
            TypeDefKind::Future(t) => format!("(future {})", opt_term(r, t.as_ref())),
            TypeDefKind::Stream(t) => format!("(stream {})", opt_term(r, t.as_ref())),
            TypeDefKind::Resource => "resource".into(),
            TypeDefKind::Unknown => "unknown".into(),
        },
    }
}

fn opt_term(r: &Resolve, t: Option<&Type>) -> String {
    match t {
        Some(t) => ty_term(r, t),
        None => "_".into(),
    }
}

fn func_term(r: &Resolve, f: &Function) -> String {
    let kind = match &f.kind {
        FunctionKind::Method(_) | FunctionKind::AsyncMethod(_) => "method",
        _ => "free",
    };
    let mut s = format!("(fn {kind} (");
    for (i, p) in f.params.iter().enumerate() {
        if i > 0 {
            s.push(' ');
        }
        s.push_str(&ty_term(r, &p.ty));
    }
    write!(s, ") {})", opt_term(r, f.result.as_ref())).unwrap();
    s
}

fn wt(t: &WasmType) -> &'static str {
    match t {
        WasmType::I32 => "i32",
        WasmType::I64 => "i64",
        WasmType::F32 => "f32",
        WasmType::F64 => "f64",
        WasmType::Pointer => "ptr",
        WasmType::PointerOrI64 => "p64",
        WasmType::Length => "len",
    }
}

fn wts(ts: &[WasmType]) -> String {
    if ts.is_empty() {
        return "-".into();
    }
    ts.iter().map(wt).collect::<Vec<_>>().join(",")
}

fn bitcast(b: &Bitcast) -> String {
    match b {
        Bitcast::Sequence(s) => format!("seq.{}.{}", bitcast(&s[0]), bitcast(&s[1])),
        other => format!("{other:?}"),
    }
}

fn off(o: &ArchitectureSize) -> String {
    format!("{}/{}", o.size_wasm32(), o.size_wasm64())
}
fn al(a: &Alignment) -> String {
    format!("{}/{}", a.align_wasm32(), a.align_wasm64())
}

// ------------------------------------------------------------------ recording Bindgen

#[derive(Clone, Copy, PartialEq)]
enum Canon {
    None,
    Bits,
}

struct Inst {
    name: String, // instruction name with static parameters
    operands: Vec<usize>,
    results: Vec<usize>,
    blocks: Vec<Block>,
    effect: bool, // inherently effectful
    binder: Option<&'static str>,
}

#[derive(Default)]
struct Block {
    insts: Vec<Inst>,
    results: Vec<usize>,
}

struct Rec<'a> {
    resolve: &'a Resolve,
    sizes: SizeAlign,
    canon: Canon,
    next: usize,
    open: Vec<Block>,     // stack of blocks under construction; open[0] = function body
    finished: Vec<Block>, // finished blocks waiting for their consumer
    leaves: HashMap<usize, String>, // externally supplied operands / return pointers
    nrp: usize,
}

impl<'a> Rec<'a> {
    fn new(resolve: &'a Resolve, canon: Canon) -> Self {
        let mut sizes = SizeAlign::default();
        sizes.fill(resolve);
        Rec {
            resolve,
            sizes,
            canon,
            next: 0,
            open: vec![Block::default()],
            finished: Vec::new(),
            leaves: HashMap::new(),
            nrp: 0,
        }
    }
    fn input(&mut self, n: usize) -> usize {
        let id = self.next;
        self.next += 1;
        self.leaves.insert(id, format!("(in {n})"));
        id
    }
}

fn nblocks(inst: &Instruction<'_>) -> usize {
    use Instruction::*;
    match inst {
        VariantLower { variant, .. } | VariantLift { variant, .. } => variant.cases.len(),
        OptionLower { .. } | OptionLift { .. } | ResultLower { .. } | ResultLift { .. } => 2,
        ListLower { .. } | ListLift { .. } | MapLower { .. } | MapLift { .. } => 1,
        FixedLengthListLowerToMemory { .. } | FixedLengthListLiftFromMemory { .. } => 1,
        GuestDeallocateList { .. } | GuestDeallocateMap { .. } => 1,
        GuestDeallocateVariant { blocks } => *blocks,
        _ => 0,
    }
}

fn realloc(r: &Option<&str>) -> &'static str {
    match r {
        Some(_) => "realloc",
        None => "borrow",
    }
}

/// (name with static params, inherently effectful, binder kind)
fn describe(r: &Resolve, inst: &Instruction<'_>) -> (String, bool, Option<&'static str>) {
    use Instruction::*;
    let t = |t: &Type| ty_term(r, t);
    match inst {
        GetArg { nth } => (format!("arg {nth}"), false, Some("arg")),
        I32Const { val } => (format!("i32 {val}"), false, Some("const")),
        Bitcasts { casts } => (
            format!(
                "Bitcasts:{}",
                casts.iter().map(bitcast).collect::<Vec<_>>().join(",")
            ),
            false,
            None,
        ),
        ConstZero { tys } => (format!("ConstZero:{}", wts(tys)), false, None),
        I32Load { offset } => (format!("I32Load {}", off(offset)), false, None),
        I32Load8U { offset } => (format!("I32Load8U {}", off(offset)), false, None),
        I32Load8S { offset } => (format!("I32Load8S {}", off(offset)), false, None),
        I32Load16U { offset } => (format!("I32Load16U {}", off(offset)), false, None),
        I32Load16S { offset } => (format!("I32Load16S {}", off(offset)), false, None),
        I64Load { offset } => (format!("I64Load {}", off(offset)), false, None),
        F32Load { offset } => (format!("F32Load {}", off(offset)), false, None),
        F64Load { offset } => (format!("F64Load {}", off(offset)), false, None),
        PointerLoad { offset } => (format!("PointerLoad {}", off(offset)), false, None),
        LengthLoad { offset } => (format!("LengthLoad {}", off(offset)), false, None),
        I32Store { offset } => (format!("I32Store {}", off(offset)), true, None),
        I32Store8 { offset } => (format!("I32Store8 {}", off(offset)), true, None),
        I32Store16 { offset } => (format!("I32Store16 {}", off(offset)), true, None),
        I64Store { offset } => (format!("I64Store {}", off(offset)), true, None),
        F32Store { offset } => (format!("F32Store {}", off(offset)), true, None),
        F64Store { offset } => (format!("F64Store {}", off(offset)), true, None),
        PointerStore { offset } => (format!("PointerStore {}", off(offset)), true, None),
        LengthStore { offset } => (format!("LengthStore {}", off(offset)), true, None),
        ListCanonLower { element, realloc: rl } => (
            format!("ListCanonLower {} {}", t(element), realloc(rl)),
            true,
            None,
        ),
        StringLower { realloc: rl } => (format!("StringLower {}", realloc(rl)), true, None),
        ListLower { element, realloc: rl } => {
            (format!("ListLower {} {}", t(element), realloc(rl)), true, None)
        }
        ListCanonLift { element, .. } => (format!("ListCanonLift {}", t(element)), false, None),
        StringLift => ("StringLift".into(), false, None),
        ListLift { element, .. } => (format!("ListLift {}", t(element)), false, None),
        MapLower { key, value, realloc: rl } => (
            format!("MapLower {} {} {}", t(key), t(value), realloc(rl)),
            true,
            None,
        ),
        MapLift { key, value, .. } => (format!("MapLift {} {}", t(key), t(value)), false, None),
        FixedLengthListLift { element, size, .. } => (
            format!("FixedLengthListLift {} {size}", t(element)),
            false,
            None,
        ),
        FixedLengthListLower { element, size, .. } => (
            format!("FixedLengthListLower {} {size}", t(element)),
            false,
            None,
        ),
        FixedLengthListLowerToMemory { element, size, .. } => (
            format!("FixedLengthListLowerToMemory {} {size}", t(element)),
            true,
            None,
        ),
        FixedLengthListLiftFromMemory { element, size, .. } => (
            format!("FixedLengthListLiftFromMemory {} {size}", t(element)),
            false,
            None,
        ),
        IterElem { .. } => ("elem".into(), false, Some("elem")),
        IterMapKey { .. } => ("key".into(), false, Some("key")),
        IterMapValue { .. } => ("val".into(), false, Some("val")),
        IterBasePointer => ("base".into(), false, Some("base")),
        RecordLower { record, .. } => (format!("RecordLower {}", record.fields.len()), false, None),
        RecordLift { record, .. } => (format!("RecordLift {}", record.fields.len()), false, None),
        HandleLower { handle, .. } => (
            format!(
                "HandleLower {}",
                if matches!(handle, Handle::Own(_)) { "own" } else { "borrow" }
            ),
            false,
            None,
        ),
        HandleLift { handle, .. } => (
            format!(
                "HandleLift {}",
                if matches!(handle, Handle::Own(_)) { "own" } else { "borrow" }
            ),
            false,
            None,
        ),
        FutureLower { .. } => ("FutureLower".into(), false, None),
        FutureLift { .. } => ("FutureLift".into(), false, None),
        StreamLower { .. } => ("StreamLower".into(), false, None),
        StreamLift { .. } => ("StreamLift".into(), false, None),
        ErrorContextLower => ("ErrorContextLower".into(), false, None),
        ErrorContextLift => ("ErrorContextLift".into(), false, None),
        TupleLower { tuple, .. } => (format!("TupleLower {}", tuple.types.len()), false, None),
        TupleLift { tuple, .. } => (format!("TupleLift {}", tuple.types.len()), false, None),
        FlagsLower { flags, .. } => (format!("FlagsLower {}", flags.flags.len()), false, None),
        FlagsLift { flags, .. } => (format!("FlagsLift {}", flags.flags.len()), false, None),
        VariantPayloadName => ("pl".into(), false, Some("pl")),
        VariantLower { variant, results, .. } => (
            format!("VariantLower {} {}", variant.cases.len(), wts(results)),
            false,
            None,
        ),
        VariantLift { variant, .. } => (format!("VariantLift {}", variant.cases.len()), false, None),
        EnumLower { enum_, .. } => (format!("EnumLower {}", enum_.cases.len()), false, None),
        EnumLift { enum_, .. } => (format!("EnumLift {}", enum_.cases.len()), false, None),
        OptionLower { results, .. } => (format!("OptionLower {}", wts(results)), false, None),
        OptionLift { .. } => ("OptionLift".into(), false, None),
        ResultLower { results, .. } => (format!("ResultLower {}", wts(results)), false, None),
        ResultLift { .. } => ("ResultLift".into(), false, None),
        CallWasm { sig, .. } => (
            format!("CallWasm {} {}", wts(&sig.params), wts(&sig.results)),
            true,
            None,
        ),
        CallInterface { func, async_ } => (
            format!(
                "CallInterface {} {} {}",
                func.params.len(),
                usize::from(func.result.is_some()),
                if *async_ { "async" } else { "sync" }
            ),
            true,
            None,
        ),
        Return { amt, .. } => (format!("Return {amt}"), true, None),
        Malloc { size, align, .. } => (format!("Malloc {} {}", off(size), al(align)), true, None),
        GuestDeallocate { size, align } => {
            (format!("GuestDeallocate {} {}", off(size), al(align)), true, None)
        }
        GuestDeallocateString => ("GuestDeallocateString".into(), true, None),
        GuestDeallocateList { element } => {
            (format!("GuestDeallocateList {}", t(element)), true, None)
        }
        GuestDeallocateMap { key, value } => (
            format!("GuestDeallocateMap {} {}", t(key), t(value)),
            true,
            None,
        ),
        GuestDeallocateVariant { blocks } => (format!("GuestDeallocateVariant {blocks}"), true, None),
        DropHandle { ty } => (format!("DropHandle {}", t(ty)), true, None),
        AsyncTaskReturn { params, .. } => (format!("AsyncTaskReturn {}", wts(params)), true, None),
        Flush { amt } => (format!("Flush {amt}"), true, None),
        // scalar lifting / lowering: the Debug name is the canonical name
        I32FromChar | I64FromU64 | I64FromS64 | I32FromU32 | I32FromS32 | I32FromU16
        | I32FromS16 | I32FromU8 | I32FromS8 | CoreF32FromF32 | CoreF64FromF64 | S8FromI32
        | U8FromI32 | S16FromI32 | U16FromI32 | S32FromI32 | U32FromI32 | S64FromI64
        | U64FromI64 | CharFromI32 | F32FromCoreF32 | F64FromCoreF64 | BoolFromI32
        | I32FromBool => (format!("{inst:?}"), false, None),
    }
}

impl<'a> Bindgen for Rec<'a> {
    type Operand = usize;

    fn emit(
        &mut self,
        resolve: &Resolve,
        inst: &Instruction<'_>,
        operands: &mut Vec<usize>,
        results: &mut Vec<usize>,
    ) {
        let (name, effect, binder) = describe(resolve, inst);
        let nb = nblocks(inst);
        assert!(self.finished.len() >= nb, "not enough finished blocks for {name}");
        let blocks = self.finished.split_off(self.finished.len() - nb);
        for _ in 0..inst.results_len() {
            results.push(self.next);
            self.next += 1;
        }
        self.open.last_mut().unwrap().insts.push(Inst {
            name,
            operands: operands.clone(),
            results: results.clone(),
            blocks,
            effect,
            binder,
        });
    }

    fn return_pointer(&mut self, size: ArchitectureSize, align: Alignment) -> usize {
        let id = self.next;
        self.next += 1;
        self.leaves
            .insert(id, format!("(rp {} {} {})", self.nrp, off(&size), al(&align)));
        self.nrp += 1;
        id
    }

    fn push_block(&mut self) {
        self.open.push(Block::default());
    }

    fn finish_block(&mut self, operands: &mut Vec<usize>) {
        let mut b = self.open.pop().expect("finish_block without push_block");
        b.results = operands.clone();
        self.finished.push(b);
    }

    fn sizes(&self) -> &SizeAlign {
        &self.sizes
    }

    fn is_list_canonical(&self, resolve: &Resolve, element: &Type) -> bool {
        match self.canon {
            Canon::None => false,
            Canon::Bits => resolve.all_bits_valid(element),
        }
    }
}

// ------------------------------------------------------------------ SSA -> tree form

struct Conv {
    env: HashMap<usize, String>,
}

impl Conv {
    fn get(&self, id: usize) -> String {
        self.env
            .get(&id)
            .cloned()
            .unwrap_or_else(|| format!("(undefined {id})"))
    }

    /// returns (statements, result expressions)
    fn block(&mut self, b: &Block, level: usize) -> (Vec<String>, Vec<String>) {
        let mut stmts = Vec::new();
        for i in &b.insts {
            if let Some(kind) = i.binder {
                let e = match kind {
                    "arg" | "const" => format!("({})", i.name),
                    k => format!("({k} {level})"),
                };
                self.env.insert(i.results[0], e);
                continue;
            }
            let args: Vec<String> = i.operands.iter().map(|o| self.get(*o)).collect();
            let mut blocks = Vec::new();
            let mut blocks_have_stmts = false;
            for bl in &i.blocks {
                let (s, r) = self.block(bl, level + 1);
                blocks_have_stmts |= !s.is_empty();
                blocks.push(format!("{{{}=>{}}}", s.join(" "), r.join(" ")));
            }
            let is_stmt = i.effect || i.results.is_empty() || blocks_have_stmts;
            let head = if args.is_empty() {
                i.name.clone()
            } else {
                format!("{} {}", i.name, args.join(" "))
            };
            if is_stmt {
                let mut s = format!("(let {} {}", i.results.len(), head);
                for b in &blocks {
                    s.push(' ');
                    s.push_str(b);
                }
                s.push(')');
                stmts.push(s);
                for (k, r) in i.results.iter().enumerate() {
                    self.env.insert(*r, format!("(res {k} {head})"));
                }
            } else if i.name.starts_with("Bitcasts:") {
                // per-slot casts: result k = cast_k(operand k)
                let casts: Vec<&str> = i.name["Bitcasts:".len()..].split(',').collect();
                for (k, r) in i.results.iter().enumerate() {
                    self.env.insert(*r, format!("(cast {} {})", casts[k], args[k]));
                }
            } else if i.name.starts_with("ConstZero:") {
                let tys: Vec<&str> = i.name["ConstZero:".len()..].split(',').collect();
                for (k, r) in i.results.iter().enumerate() {
                    self.env.insert(*r, format!("(zero {})", tys[k]));
                }
            } else {
                let mut whole = format!("({head}");
                for b in &blocks {
                    whole.push(' ');
                    whole.push_str(b);
                }
                whole.push(')');
                if i.results.len() == 1 {
                    self.env.insert(i.results[0], whole);
                } else {
                    for (k, r) in i.results.iter().enumerate() {
                        self.env.insert(*r, format!("(# {k} {whole})"));
                    }
                }
            }
        }
        let res = b.results.iter().map(|o| self.get(*o)).collect();
        (stmts, res)
    }
}

fn tree(rec: Rec<'_>, finals: &[usize]) -> String {
    let Rec { mut open, leaves, finished, .. } = rec;
    assert!(finished.is_empty(), "dangling finished blocks");
    assert_eq!(open.len(), 1, "unbalanced blocks");
    let mut body = open.pop().unwrap();
    body.results = finals.to_vec();
    let mut c = Conv { env: leaves };
    let (s, r) = c.block(&body, 0);
    format!("{{{}=>{}}}", s.join(" "), r.join(" "))
}

// ------------------------------------------------------------------ cases

fn panic_kind(p: Box<dyn std::any::Any + Send>) -> String {
    let msg = if let Some(s) = p.downcast_ref::<String>() {
        s.clone()
    } else if let Some(s) = p.downcast_ref::<&str>() {
        s.to_string()
    } else {
        "?".into()
    };
    let kind = if msg.contains("not yet implemented") || msg.contains("not implemented") {
        "todo"
    } else if msg.contains("entered unreachable code") {
        "unreachable"
    } else if msg.contains("Option::unwrap()") {
        "unwrap"
    } else if msg.contains("assertion") {
        "assert"
    } else if msg.contains("failed to flatten") {
        "flatten"
    } else {
        "other"
    };
    format!("panic:{kind}")
}

fn guarded(f: impl FnOnce() -> String) -> String {
    match std::panic::catch_unwind(std::panic::AssertUnwindSafe(f)) {
        Ok(s) => s,
        Err(p) => panic_kind(p),
    }
}

fn canon_name(c: Canon) -> &'static str {
    match c {
        Canon::None => "none",
        Canon::Bits => "bits",
    }
}

fn type_cases(r: &Resolve, t: &Type, out: &mut Vec<(String, String)>) {
    let term = ty_term(r, t);
    for max in [None, Some(4usize), Some(1)] {
        let res = guarded(|| match abi::flat_types(r, t, max) {
            Some(v) => wts(&v),
            None => "none".into(),
        });
        out.push((format!("flat|{}|{term}", max.unwrap_or(16)), res));
    }
    {
        let mut sizes = SizeAlign::default();
        sizes.fill(r);
        let s = sizes.size(t);
        let a = sizes.align(t);
        out.push((format!("sizealign|{term}"), format!("{} {}", off(&s), al(&a))));
    }
    for canon in [Canon::None, Canon::Bits] {
        let cn = canon_name(canon);
        out.push((
            format!("lowerflat|{cn}|{term}"),
            guarded(|| {
                let mut rec = Rec::new(r, canon);
                let v = rec.input(0);
                let res = abi::lower_flat(r, &mut rec, v, t);
                tree(rec, &res)
            }),
        ));
        out.push((
            format!("lowermem|{cn}|{term}"),
            guarded(|| {
                let mut rec = Rec::new(r, canon);
                let v = rec.input(0);
                let a = rec.input(1);
                abi::lower_to_memory(r, &mut rec, a, v, t);
                tree(rec, &[])
            }),
        ));
        out.push((
            format!("liftmem|{cn}|{term}"),
            guarded(|| {
                let mut rec = Rec::new(r, canon);
                let a = rec.input(0);
                let res = abi::lift_from_memory(r, &mut rec, a, t);
                tree(rec, &[res])
            }),
        ));
    }
    for own in [false, true] {
        for indirect in [false, true] {
            let key = format!(
                "dealloc|{}|{}|{term}",
                if own { "own" } else { "lists" },
                if indirect { "indirect" } else { "direct" }
            );
            let res = guarded(|| {
                let mut rec = Rec::new(r, Canon::None);
                let n = if indirect {
                    1
                } else {
                    abi::flat_types(r, t, None).map(|v| v.len()).unwrap_or(0)
                };
                if !indirect && abi::flat_types(r, t, None).is_none() {
                    return "skip:flat>16".into();
                }
                let ops: Vec<usize> = (0..n).map(|i| rec.input(i)).collect();
                let tys = [*t];
                if own {
                    abi::deallocate_lists_and_own_in_types(r, &tys, &ops, indirect, &mut rec);
                } else {
                    abi::deallocate_lists_in_types(r, &tys, &ops, indirect, &mut rec);
                }
                tree(rec, &[])
            });
            out.push((key, res));
        }
    }
}

fn variant_name(v: AbiVariant) -> &'static str {
    match v {
        AbiVariant::GuestImport => "GuestImport",
        AbiVariant::GuestExport => "GuestExport",
        AbiVariant::GuestImportAsync => "GuestImportAsync",
        AbiVariant::GuestExportAsync => "GuestExportAsync",
        AbiVariant::GuestExportAsyncStackful => "GuestExportAsyncStackful",
    }
}

fn func_cases(r: &Resolve, f: &Function, out: &mut Vec<(String, String)>) {
    let term = func_term(r, f);
    let variants = [
        AbiVariant::GuestImport,
        AbiVariant::GuestExport,
        AbiVariant::GuestImportAsync,
        AbiVariant::GuestExportAsync,
        AbiVariant::GuestExportAsyncStackful,
    ];
    for v in variants {
        out.push((
            format!("sig|{}|{term}", variant_name(v)),
            guarded(|| {
                let s = r.wasm_signature(v, f);
                format!(
                    "{} -> {} indirect={} retptr={}",
                    wts(&s.params),
                    wts(&s.results),
                    s.indirect_params as u8,
                    s.retptr as u8
                )
            }),
        ));
        for ll in [LiftLower::LowerArgsLiftResults, LiftLower::LiftArgsLowerResults] {
            for async_ in [false, true] {
                for canon in [Canon::None, Canon::Bits] {
                    let key = format!(
                        "call|{}|{}|{}|{}|{term}",
                        variant_name(v),
                        if ll == LiftLower::LowerArgsLiftResults { "lower" } else { "lift" },
                        if async_ { "async" } else { "sync" },
                        canon_name(canon)
                    );
                    out.push((
                        key,
                        guarded(|| {
                            let mut rec = Rec::new(r, canon);
                            abi::call(r, v, ll, f, &mut rec, async_);
                            tree(rec, &[])
                        }),
                    ));
                }
            }
        }
    }
    out.push((
        format!("needs|{term}"),
        guarded(|| {
            format!(
                "postreturn={} paramallocs={}",
                abi::guest_export_needs_post_return(r, f) as u8,
                abi::guest_export_params_have_allocations(r, f) as u8
            )
        }),
    ));
    out.push((
        format!("postret|{term}"),
        guarded(|| {
            let mut rec = Rec::new(r, Canon::None);
            abi::post_return(r, f, &mut rec);
            tree(rec, &[])
        }),
    ));
}

fn cast_cases(out: &mut Vec<(String, String)>) {
    let all = [
        WasmType::I32,
        WasmType::I64,
        WasmType::F32,
        WasmType::F64,
        WasmType::Pointer,
        WasmType::PointerOrI64,
        WasmType::Length,
    ];
    for a in all {
        for b in all {
            out.push((
                format!("cast|{}|{}", wt(&a), wt(&b)),
                guarded(|| bitcast(&abi::cast(a, b))),
            ));
        }
    }
}

fn main() {
    std::panic::set_hook(Box::new(|_| {}));
    let path = std::env::args().nth(1).expect("usage: abi-trace <file.wit> | --casts");
    let mut out = Vec::new();
    if path == "--casts" {
        cast_cases(&mut out);
    } else {
        let text = std::fs::read_to_string(&path).expect("read wit");
        let mut resolve = Resolve::default();
        let pkg = resolve.push_str(&path, &text).expect("parse wit");
        let mut seen_ty = std::collections::HashSet::new();
        let mut seen_fn = std::collections::HashSet::new();
        let mut funcs: Vec<&Function> = Vec::new();
        for (_, iface) in resolve.packages[pkg].interfaces.iter() {
            for (_, f) in resolve.interfaces[*iface].functions.iter() {
                funcs.push(f);
            }
        }
        for (_, w) in resolve.packages[pkg].worlds.iter() {
            let world = &resolve.worlds[*w];
            for (_, item) in world.imports.iter().chain(world.exports.iter()) {
                if let WorldItem::Function(f) = item {
                    funcs.push(f);
                }
            }
        }
        for f in funcs {
            if seen_fn.insert(func_term(&resolve, f)) {
                func_cases(&resolve, f, &mut out);
            }
            for t in f.params.iter().map(|p| &p.ty).chain(f.result.iter()) {
                if seen_ty.insert(ty_term(&resolve, t)) {
                    type_cases(&resolve, t, &mut out);
                }
            }
        }
    }
    let stdout = std::io::stdout();
    let mut o = std::io::BufWriter::new(stdout.lock());
    use std::io::Write;
    for (k, v) in out {
        writeln!(o, "{k}\t{v}").unwrap();
    }
}
