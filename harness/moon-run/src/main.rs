//! C30 (direct drive): replays sequences of `PkgResolver::qualify_package(this, name)` on the REAL
//! `crates/moonbit/src/pkg.rs`, which is included verbatim with `#[path]` (its types are
//! `pub(crate)`, no hook needed).
//! usage: moon-run qualify      (requests on stdin, one answer line per request)
//! Request:  `hex(this):hex(name) hex(this):hex(name) …`
//! Answer:   `<out> <out> …\t<final>` with `<out>` = `s` (returned "") | `a:<hex alias>` (returned
//!           "@alias.") | `x:<hex>` (anything else), and `<final>` = the `package_import` tables:
//!           `hex(this)=hex(name):hex(alias),…;…` sorted by `this`, each table sorted by name.
#![allow(dead_code, unused_imports)]
use std::io::{BufRead, Write};

// `mod pkg` = the working-tree file crates/moonbit/src/pkg.rs of /repo (or of the copy named by VERIF_REPO), see build.rs
include!(concat!(env!("OUT_DIR"), "/pkg_mod.rs"));

fn hex(s: &str) -> String {
    if s.is_empty() {
        return "-".into();
    }
    s.bytes().map(|b| format!("{b:02x}")).collect()
}

fn unhex(h: &str) -> Option<String> {
    if h == "-" {
        return Some(String::new());
    }
    if h.len() % 2 != 0 {
        return None;
    }
    let mut v = Vec::new();
    for i in (0..h.len()).step_by(2) {
        v.push(u8::from_str_radix(h.get(i..i + 2)?, 16).ok()?);
    }
    String::from_utf8(v).ok()
}

fn handle(line: &str) -> String {
    let mut r = pkg::PkgResolver::default();
    let mut outs = Vec::new();
    for tok in line.split(' ').filter(|t| !t.is_empty()) {
        let Some((a, b)) = tok.split_once(':') else { return "bad-request".into() };
        let (Some(this), Some(name)) = (unhex(a), unhex(b)) else { return "bad-request".into() };
        let q = r.qualify_package(&this, &name);
        outs.push(if q.is_empty() {
            "s".to_string()
        } else if q.len() >= 2 && q.starts_with('@') && q.ends_with('.') {
            format!("a:{}", hex(&q[1..q.len() - 1]))
        } else {
            format!("x:{}", hex(&q))
        });
    }
    let mut tables: Vec<(String, Vec<(String, String)>)> = r
        .package_import
        .iter()
        .map(|(this, imports)| {
            let mut t: Vec<(String, String)> =
                imports.packages.iter().map(|(k, v)| (k.clone(), v.clone())).collect();
            t.sort();
            (this.clone(), t)
        })
        .collect();
    tables.sort();
    let fin = tables
        .iter()
        .map(|(this, t)| {
            format!(
                "{}={}",
                hex(this),
                t.iter().map(|(k, v)| format!("{}:{}", hex(k), hex(v))).collect::<Vec<_>>().join(",")
            )
        })
        .collect::<Vec<_>>()
        .join(";");
    format!("{}\t{}", outs.join(" "), fin)
}

fn main() {
    let engine = std::env::args().nth(1).expect("engine");
    assert_eq!(engine, "qualify", "unknown engine");
    std::panic::set_hook(Box::new(|_| {}));
    let stdin = std::io::stdin();
    let stdout = std::io::stdout();
    let mut out = std::io::BufWriter::new(stdout.lock());
    for line in stdin.lock().lines() {
        let line = line.unwrap();
        let ans = match std::panic::catch_unwind(|| handle(&line)) {
            Ok(a) => a,
            Err(_) => "panic".to_string(),
        };
        writeln!(out, "{ans}").unwrap();
    }
    out.flush().unwrap();
}
