//! c-native: line server around the REAL C binding generator and the REAL component encoder.
//! usage: c-native <engine>      requests on stdin, one answer line per request (see README.md)
//!
//! Engines
//!   gen           `<opts> <enc> <hex wit> <world|->`   opts = default|nosig|autodrop|async (joined with `+`),
//!                 enc = utf8|utf16.  Answer: `ok <json>` | `err <hex msg>` | `panic <hex msg>`
//!                 json = {world, files:{name:text|hex}, funcs:[…], resources:[…]}  (see `describe`)
//!   componentize  `<hex path of core module> <hex wit> <world|-> <enc>`
//!                 Answer: `ok <json>` with the requested world's and the encoded component's
//!                 import/export items | `err <hex msg>` | `panic <hex msg>`
//!   witvalid      `<hex wit> <world|->`  → `ok` when the WIT package encodes to a component type that the
//!                 component validator accepts (independent check that an adversarial world is a *valid* world)
//!   ident         `<hex name>`  →  `<hex wit_bindgen_c::to_c_ident(name)>`
use serde_json::{json, Value};
use std::fmt::Write as _;
use std::io::{BufRead, Write};
use std::panic::{catch_unwind, AssertUnwindSafe};
use wit_bindgen_core::abi::{self, AbiVariant, WasmType};
use wit_bindgen_core::{AsyncFilterSet, Files};
use wit_parser::*;

fn hex(s: &str) -> String {
    if s.is_empty() {
        return "-".into();
    }
    s.bytes().map(|b| format!("{b:02x}")).collect()
}
fn hexb(s: &[u8]) -> String {
    s.iter().map(|b| format!("{b:02x}")).collect()
}
fn unhex(h: &str) -> Option<String> {
    if h == "-" {
        return Some(String::new());
    }
    if h.len() % 2 != 0 {
        return None;
    }
    let mut v = Vec::new();
    for i in (0..h.len()).step_by(2) {
        v.push(u8::from_str_radix(h.get(i..i + 2)?, 16).ok()?);
    }
    String::from_utf8(v).ok()
}
fn panic_msg(e: Box<dyn std::any::Any + Send>) -> String {
    if let Some(s) = e.downcast_ref::<&str>() {
        s.to_string()
    } else if let Some(s) = e.downcast_ref::<String>() {
        s.clone()
    } else {
        "?".into()
    }
}

// ------------------------------------------------------------------ type terms (copied from abi-trace)

fn ty_term(r: &Resolve, t: &Type) -> String {
    match t {
        Type::Bool => "bool".into(),
        Type::U8 => "u8".into(),
        Type::S8 => "s8".into(),
        Type::U16 => "u16".into(),
        Type::S16 => "s16".into(),
        Type::U32 => "u32".into(),
        Type::S32 => "s32".into(),
        Type::U64 => "u64".into(),
        Type::S64 => "s64".into(),
        Type::F32 => "f32".into(),
        Type::F64 => "f64".into(),
        Type::Char => "char".into(),
        Type::String => "string".into(),
        Type::ErrorContext => "errctx".into(),
        Type::Id(id) => match &r.types[*id].kind {
            TypeDefKind::Type(t) => ty_term(r, t), // aliases are transparent
            TypeDefKind::List(t) => format!("(list {})", ty_term(r, t)),
            TypeDefKind::FixedLengthList(t, n) => format!("(flist {} {n})", ty_term(r, t)),
            TypeDefKind::Map(k, v) => format!("(map {} {})", ty_term(r, k), ty_term(r, v)),
            TypeDefKind::Record(rec) => {
                let mut s = "(record".to_string();
                for f in &rec.fields {
                    write!(s, " {}", ty_term(r, &f.ty)).unwrap();
                }
                s + ")"
            }
            TypeDefKind::Tuple(t) => {
                let mut s = "(tuple".to_string();
                for f in &t.types {
                    write!(s, " {}", ty_term(r, f)).unwrap();
                }
                s + ")"
            }
            TypeDefKind::Flags(f) => format!("(flags {})", f.flags.len()),
            TypeDefKind::Enum(e) => format!("(enum {})", e.cases.len()),
            TypeDefKind::Variant(v) => {
                let mut s = "(variant".to_string();
                for c in &v.cases {
                    write!(s, " {}", opt_term(r, c.ty.as_ref())).unwrap();
                }
                s + ")"
            }
            TypeDefKind::Option(t) => format!("(option {})", ty_term(r, t)),
            TypeDefKind::Result(res) => format!(
                "(result {} {})",
                opt_term(r, res.ok.as_ref()),
                opt_term(r, res.err.as_ref())
            ),
            TypeDefKind::Handle(Handle::Own(_)) => "own".into(),
            TypeDefKind::Handle(Handle::Borrow(_)) => "borrow".into(),
            TypeDefKind::Future(t) => format!("(future {})", opt_term(r, t.as_ref())),
            TypeDefKind::Stream(t) => format!("(stream {})", opt_term(r, t.as_ref())),
            TypeDefKind::Resource => "resource".into(),
            TypeDefKind::Unknown => "unknown".into(),
        },
    }
}

fn opt_term(r: &Resolve, t: Option<&Type>) -> String {
    match t {
        Some(t) => ty_term(r, t),
        None => "_".into(),
    }
}

fn func_term(r: &Resolve, f: &Function) -> String {
    let kind = match &f.kind {
        FunctionKind::Method(_) | FunctionKind::AsyncMethod(_) => "method",
        _ => "free",
    };
    let mut s = format!("(fn {kind} (");
    for (i, p) in f.params.iter().enumerate() {
        if i > 0 {
            s.push(' ');
        }
        s.push_str(&ty_term(r, &p.ty));
    }
    write!(s, ") {})", opt_term(r, f.result.as_ref())).unwrap();
    s
}

/// The *detailed* term of a type: like `ty_term` but record fields / variant cases carry their WIT
/// names and handles say which resource they refer to and in which direction it was defined:
/// `(record (f0 T) …)`, `(variant (c0 T|_) …)`, `(enum c0 c1 …)`, `(flags b0 …)`,
/// `(own NAME)`, `(borrow NAME)`; aliases are transparent.  Used by the stub generator to spell C
/// member names (through the model of `to_c_ident`).
fn dty_term(r: &Resolve, t: &Type) -> String {
    match t {
        Type::Id(id) => match &r.types[*id].kind {
            TypeDefKind::Type(t) => dty_term(r, t),
            TypeDefKind::List(t) => format!("(list {})", dty_term(r, t)),
            TypeDefKind::FixedLengthList(t, n) => format!("(flist {} {n})", dty_term(r, t)),
            TypeDefKind::Map(k, v) => format!("(map {} {})", dty_term(r, k), dty_term(r, v)),
            TypeDefKind::Record(rec) => {
                let mut s = "(record".to_string();
                for f in &rec.fields {
                    write!(s, " ({} {})", f.name, dty_term(r, &f.ty)).unwrap();
                }
                s + ")"
            }
            TypeDefKind::Tuple(t) => {
                let mut s = "(tuple".to_string();
                for f in &t.types {
                    write!(s, " {}", dty_term(r, f)).unwrap();
                }
                s + ")"
            }
            TypeDefKind::Flags(f) => {
                let mut s = "(flags".to_string();
                for f in &f.flags {
                    write!(s, " {}", f.name).unwrap();
                }
                s + ")"
            }
            TypeDefKind::Enum(e) => {
                let mut s = "(enum".to_string();
                for c in &e.cases {
                    write!(s, " {}", c.name).unwrap();
                }
                s + ")"
            }
            TypeDefKind::Variant(v) => {
                let mut s = "(variant".to_string();
                for c in &v.cases {
                    write!(s, " ({} {})", c.name, dopt_term(r, c.ty.as_ref())).unwrap();
                }
                s + ")"
            }
            TypeDefKind::Option(t) => format!("(option {})", dty_term(r, t)),
            TypeDefKind::Result(res) => format!(
                "(result {} {})",
                dopt_term(r, res.ok.as_ref()),
                dopt_term(r, res.err.as_ref())
            ),
            TypeDefKind::Handle(Handle::Own(res)) => format!("(own {})", res_name(r, *res)),
            TypeDefKind::Handle(Handle::Borrow(res)) => format!("(borrow {})", res_name(r, *res)),
            TypeDefKind::Future(t) => format!("(future {})", dopt_term(r, t.as_ref())),
            TypeDefKind::Stream(t) => format!("(stream {})", dopt_term(r, t.as_ref())),
            TypeDefKind::Resource => "resource".into(),
            TypeDefKind::Unknown => "unknown".into(),
        },
        other => ty_term(r, other),
    }
}
fn dopt_term(r: &Resolve, t: Option<&Type>) -> String {
    match t {
        Some(t) => dty_term(r, t),
        None => "_".into(),
    }
}
fn res_name(r: &Resolve, id: TypeId) -> String {
    let id = wit_bindgen_core::dealias(r, id);
    let t = &r.types[id];
    let owner = match t.owner {
        TypeOwner::Interface(i) => r.id_of(i).unwrap_or_else(|| "?".into()),
        _ => "$world".into(),
    };
    format!("{}@{}", t.name.clone().unwrap_or_default(), owner)
}

/// The *shape* of a type as the C signature layer sees it (crates/c/src/lib.rs `return_single`,
/// `is_arg_by_pointer`, `print_sig_params`): alias layers are kept (they matter: only a *direct*
/// option parameter is flattened to `maybe_*`), the rest is the top-level constructor class.
fn shape_term(r: &Resolve, t: &Type) -> String {
    match t {
        Type::String => "string".into(),
        Type::ErrorContext => "errctx".into(),
        Type::Id(id) => match &r.types[*id].kind {
            TypeDefKind::Type(t) => format!("(alias {})", shape_term(r, t)),
            TypeDefKind::Option(t) => format!("(option {})", shape_term(r, t)),
            TypeDefKind::Result(res) => format!(
                "(result {} {})",
                res.ok.as_ref().map(|t| shape_term(r, t)).unwrap_or("_".into()),
                res.err.as_ref().map(|t| shape_term(r, t)).unwrap_or("_".into())
            ),
            TypeDefKind::Flags(_) => "flags".into(),
            TypeDefKind::Enum(_) => "enum".into(),
            TypeDefKind::Handle(_) => "handle".into(),
            TypeDefKind::Future(_) => "future".into(),
            TypeDefKind::Stream(_) => "stream".into(),
            TypeDefKind::Tuple(_) => "tuple".into(),
            TypeDefKind::Record(_) => "record".into(),
            TypeDefKind::List(_) => "list".into(),
            TypeDefKind::Map(..) => "map".into(),
            TypeDefKind::Variant(_) => "variant".into(),
            TypeDefKind::FixedLengthList(..) => "flist".into(),
            TypeDefKind::Resource => "resource".into(),
            TypeDefKind::Unknown => "unknown".into(),
        },
        _ => "scalar".into(),
    }
}

fn wt(t: &WasmType) -> &'static str {
    match t {
        WasmType::I32 => "i32",
        WasmType::I64 => "i64",
        WasmType::F32 => "f32",
        WasmType::F64 => "f64",
        WasmType::Pointer => "ptr",
        WasmType::PointerOrI64 => "p64",
        WasmType::Length => "len",
    }
}

// ------------------------------------------------------------------ gen

struct GenOpts {
    opts: wit_bindgen_c::Opts,
    is_async: bool,
}

fn parse_opts(o: &str, enc: &str) -> Option<GenOpts> {
    let mut opts = wit_bindgen_c::Opts::default();
    let mut is_async = false;
    for part in o.split('+') {
        match part {
            "default" => {}
            "nosig" => opts.no_sig_flattening = true,
            "autodrop" => opts.autodrop_borrows = wit_bindgen_c::Enabled::Yes,
            "async" => {
                opts.async_ = AsyncFilterSet::all(true);
                is_async = true;
            }
            _ => return None,
        }
    }
    opts.string_encoding = match enc {
        "utf8" => wit_component::StringEncoding::UTF8,
        "utf16" => wit_component::StringEncoding::UTF16,
        _ => return None,
    };
    Some(GenOpts { opts, is_async })
}

fn describe_func(
    r: &Resolve,
    world_name: &str,
    dir: &str,
    key: Option<&WorldKey>,
    f: &Function,
    is_async: bool,
) -> Value {
    let import = dir == "import";
    let variant = match (import, is_async) {
        (true, false) => AbiVariant::GuestImport,
        (true, true) => AbiVariant::GuestImportAsync,
        (false, false) => AbiVariant::GuestExport,
        (false, true) => AbiVariant::GuestExportAsync,
    };
    let sig = r.wasm_signature(variant, f);
    let module = key.map(|k| r.name_world_key(k));
    let kind = match &f.kind {
        FunctionKind::Freestanding | FunctionKind::AsyncFreestanding => "free",
        FunctionKind::Method(_) | FunctionKind::AsyncMethod(_) => "method",
        FunctionKind::Static(_) | FunctionKind::AsyncStatic(_) => "static",
        FunctionKind::Constructor(_) => "constructor",
    };
    let c_name = wit_bindgen_c::c_func_name(import, r, world_name, key, f, &Default::default());
    json!({
        "dir": dir,
        "iface": module,
        "name": f.name,
        "kind": kind,
        "wit_async": matches!(f.kind, FunctionKind::AsyncFreestanding | FunctionKind::AsyncMethod(_) | FunctionKind::AsyncStatic(_)),
        "term": func_term(r, f),
        "params": f.params.iter().map(|p| json!({
            "name": p.name, "term": ty_term(r, &p.ty), "dterm": dty_term(r, &p.ty), "shape": shape_term(r, &p.ty),
            "by_pointer": wit_bindgen_c::is_arg_by_pointer(r, &p.ty)})).collect::<Vec<_>>(),
        "result": f.result.as_ref().map(|t| json!({"term": ty_term(r, t), "dterm": dty_term(r, t), "shape": shape_term(r, t)})),
        "c_name": c_name,
        "export_name": if import { Value::Null } else { json!(f.legacy_core_export_name(module.as_deref())) },
        "sig": {
            "params": sig.params.iter().map(wt).collect::<Vec<_>>(),
            "results": sig.results.iter().map(wt).collect::<Vec<_>>(),
            "indirect": sig.indirect_params,
            "retptr": sig.retptr,
        },
        "needs_post_return": !import && abi::guest_export_needs_post_return(r, f),
    })
}

fn describe(r: &Resolve, world: WorldId, world_name: &str, is_async: bool) -> (Vec<Value>, Vec<Value>) {
    let w = &r.worlds[world];
    let mut funcs = Vec::new();
    let mut resources = Vec::new();
    for (dir, items) in [("import", &w.imports), ("export", &w.exports)] {
        for (key, item) in items.iter() {
            match item {
                WorldItem::Function(f) => funcs.push(describe_func(r, world_name, dir, None, f, is_async)),
                WorldItem::Interface { id, .. } => {
                    for (_, f) in r.interfaces[*id].functions.iter() {
                        funcs.push(describe_func(r, world_name, dir, Some(key), f, is_async));
                    }
                    for (name, ty) in r.interfaces[*id].types.iter() {
                        if let TypeDefKind::Resource = r.types[*ty].kind {
                            let module = r.name_world_key(key);
                            let ns = wit_bindgen_c::owner_namespace(
                                Some((*id, key)), dir == "import", world_name.to_string(), r, *ty, &Default::default());
                            let dtor = if dir == "export" {
                                json!(r.wasm_export_name(
                                    ManglingAndAbi::Legacy(LiftLowerAbi::Sync),
                                    WasmExport::ResourceDtor { interface: key, resource: *ty }))
                            } else { Value::Null };
                            resources.push(json!({"dir": dir, "iface": module, "name": name, "ns": ns,
                                                  "dtor_export_expected": dtor, "id": res_name(r, *ty)}));
                        }
                    }
                }
                WorldItem::Type { id, .. } => {
                    if let TypeDefKind::Resource = r.types[*id].kind {
                        resources.push(json!({"dir": dir, "iface": Value::Null,
                            "name": r.types[*id].name, "ns": world_name, "dtor_export_expected": Value::Null,
                            "id": res_name(r, *id)}));
                    }
                }
            }
        }
    }
    (funcs, resources)
}

/// WIT given as text, or as `path:<file or directory>` (wit-parser `push_path`, for the multi-file
/// worlds of tests/codegen)
fn push(resolve: &mut Resolve, wit: &str) -> anyhow::Result<PackageId> {
    match wit.strip_prefix("path:") {
        Some(p) => Ok(resolve.push_path(p.trim())?.0),
        None => resolve.push_str("probe.wit", wit),
    }
}

/// the world the codegen tests select (crates/test/src/lib.rs `codegen_test`): the default world,
/// else the one named `imports`
fn select(resolve: &Resolve, pkg: PackageId, name: Option<&str>) -> anyhow::Result<WorldId> {
    match name {
        Some(_) => resolve.select_world(&[pkg], name),
        None => resolve
            .select_world(&[pkg], None)
            .or_else(|err| resolve.select_world(&[pkg], Some("imports")).map_err(|_| err)),
    }
}

fn gen(line: &str) -> String {
    let toks: Vec<&str> = line.split(' ').collect();
    if toks.len() != 4 {
        return "bad-request expected: <opts> <enc> <hex wit> <world|->".into();
    }
    let Some(g) = parse_opts(toks[0], toks[1]) else { return "bad-request opts".into() };
    let Some(wit) = unhex(toks[2]) else { return "bad-request wit not hex".into() };
    let world_name = if toks[3] == "-" { None } else { Some(toks[3]) };
    let is_async = g.is_async;
    let mut generator = g.opts.build();
    let r = catch_unwind(AssertUnwindSafe(|| -> anyhow::Result<Value> {
        let mut resolve = Resolve::default();
        let pkg = push(&mut resolve, &wit)?;
        let world = select(&resolve, pkg, world_name)?;
        let wname = resolve.worlds[world].name.clone();
        let (funcs, resources) = describe(&resolve, world, &wname, is_async);
        let mut files = Files::default();
        generator.generate(&mut resolve, world, &mut files)?;
        let mut fs = serde_json::Map::new();
        for (name, bytes) in files.iter() {
            let v = if name.ends_with(".o") { json!({"hex": hexb(bytes)}) } else { json!(String::from_utf8_lossy(bytes)) };
            fs.insert(name.to_string(), v);
        }
        Ok(json!({"world": wname, "files": fs, "funcs": funcs, "resources": resources}))
    }));
    match r {
        Ok(Ok(v)) => format!("ok {v}"),
        Ok(Err(e)) => format!("err {}", hex(&format!("{e:#}"))),
        Err(e) => format!("panic {}", hex(&panic_msg(e))),
    }
}

// ------------------------------------------------------------------ componentize

fn world_items(r: &Resolve, w: WorldId) -> Value {
    let w = &r.worlds[w];
    let mut out = serde_json::Map::new();
    for (dir, items) in [("imports", &w.imports), ("exports", &w.exports)] {
        let mut v = Vec::new();
        for (key, item) in items.iter() {
            match item {
                WorldItem::Function(f) => v.push(json!({"func": f.name, "sig": func_term(r, f)})),
                WorldItem::Interface { id, .. } => {
                    let mut fs: Vec<String> = r.interfaces[*id]
                        .functions
                        .iter()
                        .map(|(n, f)| format!("{n}{}", func_term(r, f)))
                        .collect();
                    fs.sort();
                    let mut ts: Vec<String> = r.interfaces[*id]
                        .types
                        .iter()
                        .map(|(n, t)| format!("{n}={}", ty_term(r, &Type::Id(*t))))
                        .collect();
                    ts.sort();
                    v.push(json!({"iface": r.name_world_key(key), "funcs": fs, "types": ts}));
                }
                WorldItem::Type { id, .. } => {
                    v.push(json!({"type": r.types[*id].name, "def": ty_term(r, &Type::Id(*id))}))
                }
            }
        }
        out.insert(dir.to_string(), Value::Array(v));
    }
    Value::Object(out)
}

fn componentize(line: &str) -> String {
    let toks: Vec<&str> = line.split(' ').collect();
    if toks.len() != 4 {
        return "bad-request expected: <hex module path> <hex wit> <world|-> <enc>".into();
    }
    let (Some(path), Some(wit)) = (unhex(toks[0]), unhex(toks[1])) else { return "bad-request hex".into() };
    let world_name = if toks[2] == "-" { None } else { Some(toks[2]) };
    let r = catch_unwind(AssertUnwindSafe(|| -> anyhow::Result<Value> {
        let module = std::fs::read(&path)?;
        let mut resolve = Resolve::default();
        let pkg = push(&mut resolve, &wit)?;
        let world = select(&resolve, pkg, world_name)?;
        let want = world_items(&resolve, world);
        let bytes = wit_component::ComponentEncoder::default()
            .module(&module)?
            .validate(true)
            .encode()?;
        let got = match wit_component::decode(&bytes)? {
            wit_component::DecodedWasm::Component(r2, w2) => world_items(&r2, w2),
            wit_component::DecodedWasm::WitPackage(..) => anyhow::bail!("decoded a WIT package, not a component"),
        };
        Ok(json!({"want": want, "got": got, "component_bytes": bytes.len()}))
    }));
    match r {
        Ok(Ok(v)) => format!("ok {v}"),
        Ok(Err(e)) => format!("err {}", hex(&format!("{e:#}"))),
        Err(e) => format!("panic {}", hex(&panic_msg(e))),
    }
}

fn witvalid(line: &str) -> String {
    let toks: Vec<&str> = line.split(' ').collect();
    if toks.len() != 2 {
        return "bad-request expected: <hex wit> <world|->".into();
    }
    let Some(wit) = unhex(toks[0]) else { return "bad-request hex".into() };
    let world_name = if toks[1] == "-" { None } else { Some(toks[1]) };
    let r = catch_unwind(AssertUnwindSafe(|| -> anyhow::Result<()> {
        let mut resolve = Resolve::default();
        let pkg = push(&mut resolve, &wit)?;
        let _world = select(&resolve, pkg, world_name)?;
        let bytes = wit_component::encode(&resolve, pkg)?;
        wasmparser::Validator::new_with_features(wasmparser::WasmFeatures::all()).validate_all(&bytes)?;
        Ok(())
    }));
    match r {
        Ok(Ok(())) => "ok".into(),
        Ok(Err(e)) => format!("err {}", hex(&format!("{e:#}"))),
        Err(e) => format!("panic {}", hex(&panic_msg(e))),
    }
}

fn ident(line: &str) -> String {
    match unhex(line) {
        Some(s) => hex(&wit_bindgen_c::to_c_ident(&s)),
        None => "bad-request".into(),
    }
}

fn main() {
    let engine = std::env::args().nth(1).expect("engine");
    let f: fn(&str) -> String = match engine.as_str() {
        "gen" => gen,
        "componentize" => componentize,
        "ident" => ident,
        "witvalid" => witvalid,
        other => panic!("unknown engine {other}"),
    };
    std::panic::set_hook(Box::new(|_| {}));
    let stdin = std::io::stdin();
    let stdout = std::io::stdout();
    let mut out = std::io::BufWriter::new(stdout.lock());
    for line in stdin.lock().lines() {
        let line = line.unwrap();
        let ans = match catch_unwind(|| f(&line)) {
            Ok(a) => a,
            Err(_) => "panic -".to_string(),
        };
        writeln!(out, "{ans}").unwrap();
    }
    out.flush().unwrap();
}
