#include "rt.h"
#include <stdio.h>
#include <stdarg.h>
#include <unistd.h>

int cur_case = -1;

/* ------------------------------------------------------------------ output */
static char obuf[1 << 20];
static size_t olen;
void rt_flush(void) {
  size_t off = 0;
  while (off < olen) {
    ssize_t w = write(1, obuf + off, olen - off);
    if (w <= 0) break;
    off += (size_t) w;
  }
  olen = 0;
}
void out(const char *fmt, ...) {
  if (olen > sizeof obuf - 4096) rt_flush();
  va_list ap;
  va_start(ap, fmt);
  int n = vsnprintf(obuf + olen, sizeof obuf - olen, fmt, ap);
  va_end(ap);
  if (n > 0) olen += (size_t) n;
}
void out_bytes_term(const uint8_t *p, size_t n) {
  out("(s");
  for (size_t i = 0; i < n; i++) out(" %u", (unsigned) p[i]);
  out(")");
}
void out_u16_term(const uint16_t *p, size_t n) {
  out("(l");
  for (size_t i = 0; i < n; i++) out(" (i %u)", (unsigned) p[i]);
  out(")");
}
void out_flags_term(uint64_t bits, int n) {
  if (n == 0) { out("(fl)"); return; }
  out("(fl ");
  for (int i = 0; i < n; i++) out("%c", ((bits >> i) & 1) ? '1' : '0');
  out(")");
}
void out_f32(float f) { out("(f32 %u)", f2u(f)); }
void out_f64(double d) { out("(f64 %llu)", (unsigned long long) d2u(d)); }
void dump_mem(const void *p, size_t n) {
  static const char hx[] = "0123456789abcdef";
  if (n == 0) return;
  out("MEM %llu ", (unsigned long long) (uintptr_t) p);
  const uint8_t *b = (const uint8_t *) p;
  for (size_t i = 0; i < n; i++) {
    if (olen > sizeof obuf - 4096) rt_flush();
    obuf[olen++] = hx[b[i] >> 4];
    obuf[olen++] = hx[b[i] & 15];
  }
  out("\n");
}

/* ------------------------------------------------------------------ ledger */
void *__real_malloc(size_t);
void __real_free(void *);
void *__real_realloc(void *, size_t);
void *__real_calloc(size_t, size_t);

#define MAXB 8192
static struct blk { void *p; size_t size; int owner; uint8_t *snap; } blocks[MAXB];
static int nblocks;
#define MAXE 16384
static struct ev { char kind; char owner; char phase; size_t size; } evs[MAXE];
static int nevs;
static int cur_owner = 'G', cur_phase = '-';

void led_owner(int who) { cur_owner = who; }
void led_phase(int ph) { cur_phase = ph; }
static void ev(char kind, char owner, size_t size) {
  if (nevs < MAXE) { evs[nevs].kind = kind; evs[nevs].owner = owner; evs[nevs].phase = (char) cur_phase; evs[nevs].size = size; nevs++; }
}
static void add(void *p, size_t n) {
  if (!p) return;
  if (nblocks >= MAXB) { out("FATAL ledger full\n"); rt_flush(); _exit(3); }
  blocks[nblocks].p = p; blocks[nblocks].size = n; blocks[nblocks].owner = cur_owner; blocks[nblocks].snap = 0;
  nblocks++;
  ev('a', (char) cur_owner, n);
}
static int find(void *p) {
  for (int i = nblocks - 1; i >= 0; i--) if (blocks[i].p == p) return i;
  return -1;
}
static void del(int i) {
  if (blocks[i].snap) __real_free(blocks[i].snap);
  blocks[i] = blocks[nblocks - 1];
  nblocks--;
}
void *__wrap_malloc(size_t n) { void *p = __real_malloc(n); add(p, n); return p; }
void *__wrap_calloc(size_t a, size_t b) { void *p = __real_calloc(a, b); add(p, a * b); return p; }
void __wrap_free(void *p) {
  if (!p) { ev('n', '-', 0); return; }
  int i = find(p);
  if (i < 0) { ev('x', '-', 0); return; }      /* free of something not live: recorded, not forwarded */
  ev('f', (char) blocks[i].owner, blocks[i].size);
  del(i);
  __real_free(p);
}
void *__wrap_realloc(void *p, size_t n) {
  if (!p) { void *q = __real_malloc(n); add(q, n); return q; }
  int i = find(p);
  if (i < 0) { ev('x', '-', 0); return 0; }
  char o = (char) blocks[i].owner;
  ev('f', o, blocks[i].size);
  del(i);
  void *q = __real_realloc(p, n);
  int save = cur_owner; cur_owner = o; add(q, n); cur_owner = save;
  return q;
}
static int live0;
void led_mark(void) { nevs = 0; live0 = nblocks; }
void led_report(void) {
  out("LEDGER live=%d events=", nblocks - live0);
  if (nevs == 0) out("-");
  for (int i = 0; i < nevs; i++) {
    if (i) out(",");
    out("%c:%c:%llu:%c", evs[i].kind, evs[i].owner, (unsigned long long) evs[i].size, evs[i].phase);
  }
  if (nevs >= MAXE) out(",overflow");
  out("\n");
}
void led_dump_live(void) {
  for (int i = 0; i < nblocks; i++) dump_mem(blocks[i].p, blocks[i].size);
}
static int snapcount;
void led_snapshot(void) {
  snapcount = nblocks;
  for (int i = 0; i < nblocks; i++) {
    if (blocks[i].snap) __real_free(blocks[i].snap);
    blocks[i].snap = (uint8_t *) __real_malloc(blocks[i].size ? blocks[i].size : 1);
    memcpy(blocks[i].snap, blocks[i].p, blocks[i].size);
  }
}
void led_snapshot_check(void) {
  int changed = 0, checked = 0;
  for (int i = 0; i < nblocks; i++) {
    if (!blocks[i].snap) continue;
    checked++;
    if (memcmp(blocks[i].snap, blocks[i].p, blocks[i].size) != 0) changed++;
    __real_free(blocks[i].snap);
    blocks[i].snap = 0;
  }
  out("UNTOUCHED snap=%d checked=%d changed=%d\n", snapcount, checked, changed);
}
void rt_init(void) { olen = 0; nblocks = 0; nevs = 0; }
