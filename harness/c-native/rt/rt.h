/* Host-side runtime of the native C-binding runs (C10, C11): allocation ledger behind
   -Wl,--wrap=malloc,--wrap=free,--wrap=realloc,--wrap=calloc, log output, memory dumps.
   See ../README.md. */
#ifndef VERIF_RT_H
#define VERIF_RT_H
#include <stdint.h>
#include <stddef.h>
#include <string.h>
#include <stdlib.h>

extern int cur_case;

void rt_init(void);
void rt_flush(void);
void out(const char *fmt, ...);
void out_bytes_term(const uint8_t *p, size_t n);      /* (s b b b) */
void out_u16_term(const uint16_t *p, size_t n);       /* (l (i u) (i u)) */
void out_flags_term(uint64_t bits, int n);            /* (fl 0101) */
void out_f32(float f);                                /* (f32 bits) */
void out_f64(double d);                               /* (f64 bits) */
void dump_mem(const void *p, size_t n);               /* MEM <addr> <hex> */

/* ledger */
void led_owner(int who);        /* 'H' host, 'G' guest user code / bindings; tags subsequent allocations */
void led_phase(int ph);         /* tags subsequent frees */
void led_mark(void);            /* forget events, remember live set size */
void led_report(void);          /* LEDGER events=<a:o:size|f:o:size:phase|x:phase …> live=<n> */
void led_dump_live(void);       /* MEM lines for every live block */
void led_snapshot(void);        /* remember the bytes of every live block */
void led_snapshot_check(void);  /* UNTOUCHED ok | UNTOUCHED changed <n> freed <n> */

static inline float u2f(uint32_t u) { float f; memcpy(&f, &u, 4); return f; }
static inline double u2d(uint64_t u) { double d; memcpy(&d, &u, 8); return d; }
static inline uint32_t f2u(float f) { uint32_t u; memcpy(&u, &f, 4); return u; }
static inline uint64_t d2u(double d) { uint64_t u; memcpy(&u, &d, 8); return u; }
/* user-side helper: a malloc'd copy of n bytes (what a C user would do) */
static inline void *dup_bytes(const void *src, size_t n) { void *p = malloc(n); memcpy(p, src, n); return p; }
#endif
