/* bump-allocator libc fragment so that the linked module has no `env` imports */
#include <stdlib.h>
#include <string.h>
static unsigned char heap[1 << 16];
static size_t top;
void *malloc(size_t n) { size_t a = (top + 15) & ~(size_t) 15; if (a + n > sizeof heap) __builtin_trap(); top = a + n; return heap + a; }
void *calloc(size_t a, size_t b) { void *p = malloc(a * b); memset(p, 0, a * b); return p; }
void *realloc(void *p, size_t n) { void *q = malloc(n); if (p) memcpy(q, p, n); return q; }
void free(void *p) { (void) p; }
void abort(void) { __builtin_trap(); }
void *memcpy(void *d, const void *s, size_t n) { unsigned char *a = d; const unsigned char *b = s; while (n--) *a++ = *b++; return d; }
void *memset(void *d, int c, size_t n) { unsigned char *a = d; while (n--) *a++ = (unsigned char) c; return d; }
size_t strlen(const char *s) { size_t n = 0; while (s[n]) n++; return n; }
