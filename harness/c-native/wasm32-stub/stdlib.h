/* minimal stand-in for wasi-libc's <stdlib.h> (C12: compile acceptance of generated bindings) */
#ifndef VERIF_STDLIB_H
#define VERIF_STDLIB_H
#include <stddef.h>
void *malloc(size_t);
void *calloc(size_t, size_t);
void *realloc(void *, size_t);
void free(void *);
_Noreturn void abort(void);
#endif
