#ifndef VERIF_STRING_H
#define VERIF_STRING_H
#include <stddef.h>
void *memcpy(void *, const void *, size_t);
void *memset(void *, int, size_t);
size_t strlen(const char *);
#endif
