#ifndef VERIF_UCHAR_H
#define VERIF_UCHAR_H
#include <stdint.h>
typedef uint_least16_t char16_t;
typedef uint_least32_t char32_t;
#endif
