#ifndef VERIF_ASSERT_H
#define VERIF_ASSERT_H
#define assert(x) ((void) (x))
#endif
