// The included source is taken from the repository the check is pointed at: /repo, or the copy named by
// VERIF_REPO (tools/mutcheck.sh: a scratch worktree with a seeded change).
use std::{env, fs, path::PathBuf};
fn main() {
    let root = env::var("VERIF_REPO").unwrap_or_else(|_| "/repo".to_string());
    let src = format!("{root}/crates/test/src/config.rs");
    let out = PathBuf::from(env::var("OUT_DIR").unwrap()).join("config_mod.rs");
    fs::write(&out, format!("#[allow(dead_code)]\n#[path = \"{src}\"]\nmod config;\n")).unwrap();
    println!("cargo:rerun-if-env-changed=VERIF_REPO");
    println!("cargo:rerun-if-changed={src}");
}
