//! C34: line server driving the real test-configuration reader of `wit-bindgen-test`
//! (`/repo/crates/test/src/config.rs`, a private module of that crate: included by path so that it
//! is compiled from the working tree on every run).
//! usage: config-run <engine>   engine = config | glue     (one request per line, strings hex-encoded)
//!
//! engine `config`:
//!   `cfg <hex contents> <hex comment> <hex model_text>`
//!        -> `I=<r> M=<r>`   I = parse_test_config::<toml::Table>(contents, comment)
//!                           M = toml::from_str::<toml::Table>(model_text) with the same context
//!           <r> = `ok:<canonical rendering of the TOML document>` | `err:<hex of the error chain>`
//!   `args <hex contents> <hex comment>`
//!        -> `ok:<list>|<list>`  Vec<String> from `args` and `wasmtime-flags` of RuntimeTestConfig | `err:<hex>`
//!   `deps <hex contents> <hex comment>` -> `ok:<list>` WitConfig::dependency_worlds() | `err:<hex>`
//!   `sl s:<hex>` | `sl l:<hex>,<hex>…` | `sl l:[]` | `sl default`
//!        -> `<list>`  Vec::<String>::from(StringList::String(..) / StringList::List(..) / default())
//!   <list> = hex strings joined by `,`, `[]` when empty
//! engine `glue` (the std functions the model's primitives stand for):
//!   `lines <hex>` | `splitws <hex>` | `join <hex sep> <list>` | `starts <hex s> <hex p>` | `slice <hex s> <hex p>`
use std::io::{BufRead, Write};

// `mod config` = the working-tree file crates/test/src/config.rs of /repo (or of the copy named by VERIF_REPO), see build.rs
include!(concat!(env!("OUT_DIR"), "/config_mod.rs"));

fn hex(s: &str) -> String {
    if s.is_empty() {
        return "-".into();
    }
    s.bytes().map(|b| format!("{b:02x}")).collect()
}

fn unhex(h: &str) -> Option<String> {
    if h == "-" {
        return Some(String::new());
    }
    if h.len() % 2 != 0 {
        return None;
    }
    let mut v = Vec::new();
    for i in (0..h.len()).step_by(2) {
        v.push(u8::from_str_radix(h.get(i..i + 2)?, 16).ok()?);
    }
    String::from_utf8(v).ok()
}

fn list(v: &[String]) -> String {
    if v.is_empty() {
        "[]".into()
    } else {
        v.iter().map(|s| hex(s)).collect::<Vec<_>>().join(",")
    }
}

fn unlist(t: &str) -> Option<Vec<String>> {
    if t == "[]" {
        return Some(Vec::new());
    }
    t.split(',').map(unhex).collect()
}

fn canon(v: &toml::Value, out: &mut String) {
    match v {
        toml::Value::String(s) => out.push_str(&format!("s{}", hex(s))),
        toml::Value::Integer(i) => out.push_str(&format!("i{i}")),
        toml::Value::Float(f) => out.push_str(&format!("f{:016x}", f.to_bits())),
        toml::Value::Boolean(b) => out.push_str(if *b { "T" } else { "F" }),
        toml::Value::Datetime(d) => out.push_str(&format!("d{}", hex(&d.to_string()))),
        toml::Value::Array(a) => {
            out.push('[');
            for (i, x) in a.iter().enumerate() {
                if i > 0 {
                    out.push(';');
                }
                canon(x, out);
            }
            out.push(']');
        }
        toml::Value::Table(t) => canon_table(t, out),
    }
}

fn canon_table(t: &toml::Table, out: &mut String) {
    let mut keys: Vec<&String> = t.keys().collect();
    keys.sort();
    out.push('{');
    for (i, k) in keys.iter().enumerate() {
        if i > 0 {
            out.push(';');
        }
        out.push_str(&format!("{}=", hex(k)));
        canon(&t[*k], out);
    }
    out.push('}');
}

fn res(r: anyhow::Result<toml::Table>) -> String {
    match r {
        Ok(t) => {
            let mut s = String::from("ok:");
            canon_table(&t, &mut s);
            s
        }
        Err(e) => format!("err:{}", hex(&format!("{e:#}"))),
    }
}

fn handle_config(line: &str) -> String {
    use anyhow::Context;
    let t: Vec<&str> = line.split(' ').filter(|t| !t.is_empty()).collect();
    match t.as_slice() {
        ["cfg", c, m, mt] => {
            let (Some(c), Some(m), Some(mt)) = (unhex(c), unhex(m), unhex(mt)) else { return "bad-request".into() };
            let i = config::parse_test_config::<toml::Table>(&c, &m);
            let mm: anyhow::Result<toml::Table> =
                toml::from_str(&mt).context("failed to parse the test configuration");
            format!("I={} M={}", res(i), res(mm))
        }
        ["args", c, m] => {
            let (Some(c), Some(m)) = (unhex(c), unhex(m)) else { return "bad-request".into() };
            match config::parse_test_config::<config::RuntimeTestConfig>(&c, &m) {
                Ok(cfg) => {
                    let a: Vec<String> = cfg.args.into();
                    let w: Vec<String> = cfg.wasmtime_flags.into();
                    format!("ok:{}|{}", list(&a), list(&w))
                }
                Err(e) => format!("err:{}", hex(&format!("{e:#}"))),
            }
        }
        ["deps", c, m] => {
            let (Some(c), Some(m)) = (unhex(c), unhex(m)) else { return "bad-request".into() };
            match config::parse_test_config::<config::WitConfig>(&c, &m) {
                Ok(cfg) => format!("ok:{}", list(&cfg.dependency_worlds())),
                Err(e) => format!("err:{}", hex(&format!("{e:#}"))),
            }
        }
        ["sl", v] => {
            let sl = if *v == "default" {
                config::StringList::default()
            } else if let Some(h) = v.strip_prefix("s:") {
                let Some(s) = unhex(h) else { return "bad-request".into() };
                config::StringList::String(s)
            } else if let Some(l) = v.strip_prefix("l:") {
                let Some(l) = unlist(l) else { return "bad-request".into() };
                config::StringList::List(l)
            } else {
                return "bad-request".into();
            };
            let v: Vec<String> = sl.into();
            list(&v)
        }
        _ => "bad-request".into(),
    }
}

fn handle_glue(line: &str) -> String {
    let t: Vec<&str> = line.split(' ').filter(|t| !t.is_empty()).collect();
    match t.as_slice() {
        ["lines", s] => match unhex(s) {
            Some(s) => list(&s.lines().map(|l| l.to_string()).collect::<Vec<_>>()),
            None => "bad-request".into(),
        },
        ["splitws", s] => match unhex(s) {
            Some(s) => list(&s.split_whitespace().map(|l| l.to_string()).collect::<Vec<_>>()),
            None => "bad-request".into(),
        },
        ["join", sep, l] => match (unhex(sep), unlist(l)) {
            (Some(sep), Some(l)) => hex(&l.join(&sep)),
            _ => "bad-request".into(),
        },
        ["starts", s, p] => match (unhex(s), unhex(p)) {
            (Some(s), Some(p)) => (if s.starts_with(p.as_str()) { "1" } else { "0" }).into(),
            _ => "bad-request".into(),
        },
        // `&l[p.len()..]` for a line that starts with p (else `none`)
        ["slice", s, p] => match (unhex(s), unhex(p)) {
            (Some(s), Some(p)) => {
                if s.starts_with(p.as_str()) {
                    hex(&s[p.len()..])
                } else {
                    "none".into()
                }
            }
            _ => "bad-request".into(),
        },
        _ => "bad-request".into(),
    }
}

fn main() {
    let engine = std::env::args().nth(1).expect("engine");
    let f: fn(&str) -> String = match engine.as_str() {
        "config" => handle_config,
        "glue" => handle_glue,
        other => panic!("unknown engine {other}"),
    };
    std::panic::set_hook(Box::new(|_| {}));
    let stdin = std::io::stdin();
    let stdout = std::io::stdout();
    let mut out = std::io::BufWriter::new(stdout.lock());
    for line in stdin.lock().lines() {
        let line = line.unwrap();
        let ans = match std::panic::catch_unwind(|| f(&line)) {
            Ok(a) => a,
            Err(_) => "panic".to_string(),
        };
        writeln!(out, "{ans}").unwrap();
    }
    out.flush().unwrap();
}
